//! Linear solver operations (C13) against the real code.
use crate::duals::{fmt_num, hf, pf, DualState};
use crate::rng::Rng;
use ndarray::{Array1, Array2};
use rateslib::dual::linalg::{dsolve, fdsolve};
use rateslib::dual::{Dual, Dual2, Number};
use std::io::Write;
use std::panic::{catch_unwind, AssertUnwindSafe};

fn kind(n: &Number) -> usize {
    match n {
        Number::F64(_) => 0,
        Number::Dual(_) => 1,
        Number::Dual2(_) => 2,
    }
}

fn fmt_vec<T, F: Fn(&T) -> Number>(x: &Array1<T>, f: F) -> String {
    let parts: Vec<String> = x.iter().map(|v| fmt_num(&f(v))).collect();
    format!("X {} ; {}", x.len(), parts.join(" ; "))
}

pub fn step(ds: &DualState, t: &[&str]) -> Option<String> {
    match t {
        ["solve", which, rows, cols, lsq, entries @ ..] => {
            let rows: usize = rows.parse().ok()?;
            let cols: usize = cols.parse().ok()?;
            let lsq = *lsq == "1";
            let mut vals: Vec<Number> = Vec::new();
            for v in entries {
                vals.push(if let Some(x) = v.strip_prefix('F') {
                    Number::F64(pf(x)?)
                } else if let Some(h) = v.strip_prefix('H') {
                    ds.vals.get(&h.parse().ok()?)?.clone()
                } else {
                    return None;
                });
            }
            if vals.len() != rows * cols + rows {
                return None;
            }
            let (av, bv) = vals.split_at(rows * cols);
            let r = catch_unwind(AssertUnwindSafe(|| match *which {
                "d" => {
                    let k = vals.iter().map(kind).max().unwrap_or(0);
                    match k {
                        0 => {
                            let a = Array2::from_shape_vec((rows, cols), av.iter().map(f64::from).collect()).unwrap();
                            let b = Array1::from_vec(bv.iter().map(f64::from).collect());
                            fmt_vec(&dsolve(&a.view(), &b.view(), lsq), |v| Number::F64(*v))
                        }
                        1 => {
                            let a = Array2::from_shape_vec((rows, cols), av.iter().map(Dual::from).collect()).unwrap();
                            let b = Array1::from_vec(bv.iter().map(Dual::from).collect());
                            fmt_vec(&dsolve(&a.view(), &b.view(), lsq), |v| Number::Dual(v.clone()))
                        }
                        _ => {
                            let a = Array2::from_shape_vec((rows, cols), av.iter().map(Dual2::from).collect()).unwrap();
                            let b = Array1::from_vec(bv.iter().map(Dual2::from).collect());
                            fmt_vec(&dsolve(&a.view(), &b.view(), lsq), |v| Number::Dual2(v.clone()))
                        }
                    }
                }
                _ => {
                    let a = Array2::from_shape_vec((rows, cols), av.iter().map(f64::from).collect()).unwrap();
                    let k = bv.iter().map(kind).max().unwrap_or(0);
                    match k {
                        0 => {
                            let b = Array1::from_vec(bv.iter().map(f64::from).collect());
                            fmt_vec(&fdsolve(&a.view(), &b.view(), lsq), |v| Number::F64(*v))
                        }
                        1 => {
                            let b = Array1::from_vec(bv.iter().map(Dual::from).collect());
                            fmt_vec(&fdsolve(&a.view(), &b.view(), lsq), |v| Number::Dual(v.clone()))
                        }
                        _ => {
                            let b = Array1::from_vec(bv.iter().map(Dual2::from).collect());
                            fmt_vec(&fdsolve(&a.view(), &b.view(), lsq), |v| Number::Dual2(v.clone()))
                        }
                    }
                }
            }));
            Some(r.unwrap_or_else(|_| "panic".to_string()))
        }
        _ => None,
    }
}

// ------------------------------------------------------------------------------------------

const NAMES: [&str; 5] = ["p", "q", "r", "s", "t"];

/// emits handles for a random matrix/vector of the requested kind and returns the entry tokens
fn emit_entries<W: Write>(out: &mut W, r: &mut Rng, next: &mut usize, vals: &[f64], kind: usize) -> Vec<String> {
    let mut toks = Vec::new();
    for &v in vals {
        if kind == 0 || (r.chance(1, 3) && kind != 0 && v == 0.0) {
            // plain floats (zeros stay structural zeros some of the time)
            if kind == 0 {
                toks.push(format!("F{}", hf(v)));
                continue;
            }
        }
        let id = *next;
        *next += 1;
        let k = r.range(0, 2) as usize;
        let mut names: Vec<&str> = NAMES.to_vec();
        r.shuffle(&mut names);
        names.truncate(k);
        let tag = if kind == 1 { "dual" } else { "dual2" };
        write!(out, "{} {} {} {}", tag, id, hf(v), k).unwrap();
        for n in &names {
            write!(out, " {} {}", n, hf(((r.unit() * 2.0 - 1.0) * 16.0).round() / 16.0)).unwrap();
        }
        if kind == 2 {
            let mut h = vec![0.0; k * k];
            for a in 0..k {
                for b in a..k {
                    let x = ((r.unit() - 0.5) * 8.0).round() / 8.0;
                    h[a * k + b] = x;
                    h[b * k + a] = x;
                }
            }
            for x in h {
                write!(out, " {}", hf(x)).unwrap();
            }
        }
        writeln!(out, " 0").unwrap();
        toks.push(format!("H{}", id));
    }
    toks
}

/// exact determinant of a small integer matrix (fraction-free Bareiss elimination)
fn int_det(a: &[f64], n: usize) -> i128 {
    let mut m: Vec<i128> = a.iter().map(|x| *x as i128).collect();
    let mut sign = 1i128;
    let mut prev = 1i128;
    for k in 0..n {
        if m[k * n + k] == 0 {
            match (k + 1..n).find(|&rr| m[rr * n + k] != 0) {
                Some(rr) => {
                    for c in 0..n {
                        m.swap(k * n + c, rr * n + c);
                    }
                    sign = -sign;
                }
                None => return 0,
            }
        }
        for i in k + 1..n {
            for j in k + 1..n {
                m[i * n + j] = (m[i * n + j] * m[k * n + k] - m[i * n + k] * m[k * n + j]) / prev;
            }
        }
        prev = m[k * n + k];
    }
    sign * m[n * n - 1]
}

pub fn gen_c13<W: Write>(out: &mut W, thorough: bool, seed: u64) {
    let mut r = Rng::new(seed ^ 0xC13);
    let n_sys = if thorough { 6000 } else { 400 };
    for i in 0..n_sys {
        let n = r.range(1, if i % 7 == 0 { 8 } else { 5 }) as usize;
        let lsq = r.chance(1, 4);
        let rows = if lsq { n + r.range(0, 6.min(12 - n as i64)) as usize } else { n };
        // a well-conditioned random matrix: random entries + diagonal boost, then zero patterns that force row swaps
        let mut a = vec![0.0f64; rows * n];
        for rr in 0..rows {
            for c in 0..n {
                a[rr * n + c] = ((r.unit() * 2.0 - 1.0) * 8.0).round() / 4.0;
                if rr % n == c {
                    a[rr * n + c] += if r.chance(1, 2) { 5.0 } else { -5.0 };
                }
            }
        }
        if !lsq && n >= 2 && i % 4 == 3 {
            // small-integer matrices without a dominant diagonal: elimination itself creates exact zeros in later
            // pivot positions (rows that agree in their leading columns), so the pivot has to be chosen from the
            // UPDATED column; kept only if the integer determinant is non-zero
            loop {
                for v in a.iter_mut() {
                    *v = r.range(-2, 2) as f64;
                }
                if r.chance(1, 2) {
                    // two rows equal in the first column(s): the second pivot column of the lower one cancels
                    let j = r.range(1, n as i64 - 1) as usize;
                    let m = r.range(1, 2) as f64;
                    let upto = r.range(1, (n as i64 - 1).max(1)) as usize;
                    for c in 0..upto {
                        a[j * n + c] = m * a[c];
                    }
                }
                if int_det(&a, n) != 0 {
                    break;
                }
            }
        } else if !lsq && n >= 2 {
            match r.below(5) {
                0 => {
                    // zero in the first pivot position: forces a swap in the first column
                    let k = r.range(1, n as i64 - 1) as usize;
                    for c in 0..n {
                        a.swap(c, k * n + c);
                    }
                    a[0] = 0.0;
                }
                1 => {
                    // swap needed in a middle / last column: permute two later rows
                    let j = r.range(0, n as i64 - 1) as usize;
                    let k = r.range(0, n as i64 - 1) as usize;
                    for c in 0..n {
                        a.swap(j * n + c, k * n + c);
                    }
                }
                2 => {
                    // ties in absolute value in the pivot column (last maximum is chosen)
                    let j = r.range(0, n as i64 - 1) as usize;
                    let v = a[j * n].abs().max(1.0);
                    for rr in 0..n {
                        a[rr * n] = if r.chance(1, 2) { v } else { -v };
                    }
                    // keep it non-singular with high probability through the boosted diagonal
                }
                _ => {}
            }
        }
        let b: Vec<f64> = (0..rows).map(|_| ((r.unit() * 2.0 - 1.0) * 8.0).round() / 4.0).collect();
        let mut next = 100usize;
        let kind_pair = r.below(5);
        // which of A / b carry floats or dual numbers
        let (which, ka, kb) = match kind_pair {
            0 => ("d", 0, 0),
            1 => ("d", 1, 1),
            2 => ("d", 2, 2),
            3 => ("f", 0, 1),
            _ => ("f", 0, 2),
        };
        let at = emit_entries(out, &mut r, &mut next, &a, ka);
        let bt = emit_entries(out, &mut r, &mut next, &b, kb);
        writeln!(out, "solve {} {} {} {} {} {}", which, rows, n, lsq as u8, at.join(" "), bt.join(" ")).unwrap();
        // the same system with its rows permuted (row order must not change the answer)
        if !lsq && n >= 2 {
            let mut perm: Vec<usize> = (0..n).collect();
            r.shuffle(&mut perm);
            let mut at2 = Vec::new();
            let mut bt2 = Vec::new();
            for &p in &perm {
                for c in 0..n {
                    at2.push(at[p * n + c].clone());
                }
                bt2.push(bt[p].clone());
            }
            writeln!(out, "solve {} {} {} 0 {} {}", which, n, n, at2.join(" "), bt2.join(" ")).unwrap();
        }
        writeln!(out, "reset").unwrap();
    }
}
