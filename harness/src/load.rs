//! C20: fallible entry points against the real code.
//!
//!  * `loadjson <hex>` / `loadjsonx <hex>`: the tagged `from_json` entry point on an arbitrary text, run
//!    in a WORKER PROCESS (a panic while a `PyErr` is being formatted without an interpreter aborts the
//!    process, which `catch_unwind` cannot intercept): answers `ok <Kind> <shape>`, `err`, `panic`, `abort`.
//!  * `trydual`, `trydual2`, `ccy`, `fxpair`: the validating constructors with arbitrary (mismatched)
//!    arguments.
//!  * the generator: date arithmetic over every 8-bit day count, constructors, singular spline systems,
//!    and JSON documents obtained from valid ones (built by the library's own `to_json`) by deleting,
//!    duplicating and altering fields and values.
use crate::dates::{hex_decode, hex_encode};
use crate::duals::{hf, pf};
use crate::rng::Rng;
use rateslib::calendars::{Cal, CalType, Convention, Modifier, NamedCal, UnionCal};
use rateslib::dual::{ADOrder, Dual, Dual2, Gradient1, Gradient2, Number, Vars};
use rateslib::fx::rates::{Ccy, FXPair, FXRate, FXRates};
use rateslib::json::JSON;
use rateslib::splines::PPSpline;
use rateslib::verif_hooks::{from_json_tagged, CurveHandle};
use serde_json::Value;
use std::io::{BufRead, BufReader, Write};
use std::panic::{catch_unwind, AssertUnwindSafe};
use std::process::{Child, ChildStdin, ChildStdout, Command, Stdio};

/* ---------- the worker process ---------- */

pub struct Worker {
    child: Option<(Child, ChildStdin, BufReader<ChildStdout>)>,
}

impl Worker {
    pub fn new() -> Self {
        Worker { child: None }
    }
    fn spawn(&mut self) {
        let exe = std::env::current_exe().expect("own path");
        let mut c = Command::new(exe)
            .arg("jsonworker")
            .stdin(Stdio::piped())
            .stdout(Stdio::piped())
            .stderr(Stdio::null())
            .spawn()
            .expect("spawn worker");
        let i = c.stdin.take().unwrap();
        let o = BufReader::new(c.stdout.take().unwrap());
        self.child = Some((c, i, o));
    }
    /// one request, one answer; a dead worker is an `abort` outcome and is replaced
    pub fn ask(&mut self, line: &str) -> String {
        if self.child.is_none() {
            self.spawn();
        }
        let (_, i, o) = self.child.as_mut().unwrap();
        let sent = writeln!(i, "{}", line).and_then(|_| i.flush()).is_ok();
        let mut ans = String::new();
        let got = if sent { o.read_line(&mut ans).unwrap_or(0) } else { 0 };
        if got == 0 || !ans.ends_with('\n') {
            if let Some((mut c, _, _)) = self.child.take() {
                let _ = c.kill();
                let _ = c.wait();
            }
            return "abort".to_string();
        }
        ans.trim_end().to_string()
    }
}

impl Drop for Worker {
    fn drop(&mut self) {
        if let Some((mut c, i, _)) = self.child.take() {
            drop(i);
            let _ = c.wait();
        }
    }
}

pub fn worker_main() {
    std::panic::set_hook(Box::new(|_| {}));
    let stdin = std::io::stdin();
    let stdout = std::io::stdout();
    for line in stdin.lock().lines() {
        let line = line.unwrap();
        let toks: Vec<&str> = line.split_ascii_whitespace().collect();
        let ans = match toks.as_slice() {
            [_, h] => match hex_decode(h) {
                Some(text) => load_one(&text),
                None => "bad-op".to_string(),
            },
            ["loadtyped", tag, h] => match hex_decode(h) {
                Some(text) => load_typed(tag, &text),
                None => "bad-op".to_string(),
            },
            _ => "bad-op".to_string(),
        };
        let mut o = stdout.lock();
        writeln!(o, "{}", ans).unwrap();
        o.flush().unwrap();
    }
}

fn arr_len(v: &Value) -> String {
    match v {
        Value::Array(a) => a.len().to_string(),
        Value::Null => "-".to_string(),
        _ => "?".to_string(),
    }
}

fn nd_len(v: &Value) -> String {
    match v {
        Value::Null => "-".to_string(),
        _ => arr_len(&v["data"]),
    }
}

/// shape summary of a loaded object, read off its own re-serialisation
fn shape(kind: &str, re: &str) -> String {
    let v: Value = match serde_json::from_str(re) {
        Ok(v) => v,
        Err(_) => return "unparsable".to_string(),
    };
    let o = &v[kind];
    match kind {
        "Dual" => format!("v={} d={}", arr_len(&o["vars"]), nd_len(&o["dual"])),
        "Dual2" => format!(
            "v={} d={} h={}x{}",
            arr_len(&o["vars"]),
            nd_len(&o["dual"]),
            o["dual2"]["dim"][0],
            o["dual2"]["dim"][1]
        ),
        "Cal" => format!("h={} w={}", arr_len(&o["holidays"]), arr_len(&o["week_mask"])),
        "UnionCal" => format!("c={} s={}", arr_len(&o["calendars"]), arr_len(&o["settlement_calendars"])),
        "NamedCal" => format!("name={}", hex_encode(o["name"].as_str().unwrap_or("?"))),
        "FXRates" => {
            let cs: Vec<String> = match &o["currencies"] {
                Value::Array(a) => a.iter().map(|c| hex_encode(c["name"].as_str().unwrap_or("?"))).collect(),
                _ => vec!["?".to_string()],
            };
            format!("q={} c={}", arr_len(&o["fx_rates"]), cs.join(","))
        }
        "PPSplineF64" | "PPSplineDual" | "PPSplineDual2" => {
            let s = &o["inner"];
            format!("k={} t={} n={} c={}", s["k"], arr_len(&s["t"]), s["n"], nd_len(&s["c"]))
        }
        "Curve" => {
            let c = &o["inner"];
            let (kind, count) = match &c["nodes"] {
                Value::Object(m) if m.len() == 1 => {
                    let (k, v) = m.iter().next().unwrap();
                    (k.clone(), match v { Value::Object(mm) => mm.len(), _ => 0 })
                }
                _ => ("?".to_string(), 0),
            };
            let tag = |v: &Value| -> String {
                match v {
                    Value::String(s) => s.clone(),
                    Value::Object(m) if m.len() == 1 => m.keys().next().unwrap().clone(),
                    _ => "?".to_string(),
                }
            };
            format!(
                "n={}:{} i={} id={} cv={} m={} ib={} cal={}",
                kind,
                count,
                tag(&c["interpolator"]),
                hex_encode(c["id"].as_str().unwrap_or("?")),
                tag(&c["convention"]),
                tag(&c["modifier"]),
                if c["index_base"].is_null() { 0 } else { 1 },
                tag(&c["calendar"])
            )
        }
        _ => String::new(),
    }
}

fn load_one(text: &str) -> String {
    match catch_unwind(AssertUnwindSafe(|| from_json_tagged(text))) {
        Ok(Ok((kind, re))) => format!("ok {} {}", kind, shape(&kind, &re)).trim_end().to_string(),
        Ok(Err(_)) => "err".to_string(),
        Err(_) => "panic".to_string(),
    }
}

/// the per-type entry points (`JSON::from_json` of the type, `serde_json::from_str` for the number types): the
/// loaded object is re-serialised and wrapped in its tag so that `shape` reads it like a tagged result
fn load_typed(tag: &str, text: &str) -> String {
    let r = catch_unwind(AssertUnwindSafe(|| -> Result<String, ()> {
        let body = match tag {
            "NamedCal" => NamedCal::from_json(text).map_err(|_| ())?.to_json().map_err(|_| ())?,
            "Cal" => Cal::from_json(text).map_err(|_| ())?.to_json().map_err(|_| ())?,
            "UnionCal" => UnionCal::from_json(text).map_err(|_| ())?.to_json().map_err(|_| ())?,
            "FXRates" => FXRates::from_json(text).map_err(|_| ())?.to_json().map_err(|_| ())?,
            "Dual" => serde_json::to_string(&serde_json::from_str::<Dual>(text).map_err(|_| ())?).map_err(|_| ())?,
            "Dual2" => serde_json::to_string(&serde_json::from_str::<Dual2>(text).map_err(|_| ())?).map_err(|_| ())?,
            _ => return Err(()),
        };
        Ok(format!("{{\"{}\":{}}}", tag, body))
    }));
    match r {
        Ok(Ok(re)) => format!("ok {} {}", tag, shape(tag, &re)).trim_end().to_string(),
        Ok(Err(_)) => "err".to_string(),
        Err(_) => "panic".to_string(),
    }
}

const TYPED: [&str; 6] = ["Dual", "Dual2", "Cal", "UnionCal", "NamedCal", "FXRates"];

/// one document through the tagged entry point and, when it is `{"<Type>": body}` for a type with its own
/// entry point, the body through that entry point as well
fn emit_load<W: Write>(out: &mut W, d: &J) {
    writeln!(out, "loadjson {}", hex_encode(&d.text())).unwrap();
    if let J::Obj(kvs) = d {
        if kvs.len() == 1 && TYPED.contains(&kvs[0].0.as_str()) {
            writeln!(out, "loadtyped {} {}", kvs[0].0, hex_encode(&kvs[0].1.text())).unwrap();
        }
    }
}

/* ---------- constructor ops ---------- */

fn guarded<F: FnOnce() -> String>(f: F) -> String {
    match catch_unwind(AssertUnwindSafe(f)) {
        Ok(s) => s,
        Err(_) => "panic".to_string(),
    }
}

/// `<n> item*n` prefix of a token slice
fn counted<'a>(t: &'a [&'a str]) -> Option<(&'a [&'a str], &'a [&'a str])> {
    let n: usize = t.first()?.parse().ok()?;
    if t.len() < 1 + n {
        return None;
    }
    Some((&t[1..1 + n], &t[1 + n..]))
}

pub fn step(t: &[&str]) -> Option<String> {
    Some(match t {
        ["trydual", real, rest @ ..] => {
            let real = pf(real)?;
            let (ns, rest) = counted(rest)?;
            let (ds, rest) = counted(rest)?;
            if !rest.is_empty() {
                return None;
            }
            let ns: Vec<String> = ns.iter().map(|s| s.to_string()).collect();
            let ds: Vec<f64> = ds.iter().map(|s| pf(s)).collect::<Option<_>>()?;
            guarded(|| match Dual::try_new(real, ns, ds) {
                Ok(d) => format!("ok v={} d={}", d.vars().len(), d.dual().len()),
                Err(_) => "err".to_string(),
            })
        }
        ["trydualfrom", real, rest @ ..] => {
            // `try_new_from`: the same arbitrary lists, re-indexed onto another number's variable list
            let real = pf(real)?;
            let (os, rest) = counted(rest)?;
            let (ns, rest) = counted(rest)?;
            let (ds, rest) = counted(rest)?;
            if !rest.is_empty() {
                return None;
            }
            let os: Vec<String> = os.iter().map(|s| s.to_string()).collect();
            let ns: Vec<String> = ns.iter().map(|s| s.to_string()).collect();
            let ds: Vec<f64> = ds.iter().map(|s| pf(s)).collect::<Option<_>>()?;
            guarded(|| {
                let other = Dual2::new(0.5, os);
                match Dual::try_new_from(&other, real, ns, ds) {
                    Ok(d) => format!("ok v={} d={}", d.vars().len(), d.dual().len()),
                    Err(_) => "err".to_string(),
                }
            })
        }
        ["trydual2from", real, rest @ ..] => {
            let real = pf(real)?;
            let (os, rest) = counted(rest)?;
            let (ns, rest) = counted(rest)?;
            let (ds, rest) = counted(rest)?;
            let (hs, rest) = counted(rest)?;
            if !rest.is_empty() {
                return None;
            }
            let os: Vec<String> = os.iter().map(|s| s.to_string()).collect();
            let ns: Vec<String> = ns.iter().map(|s| s.to_string()).collect();
            let ds: Vec<f64> = ds.iter().map(|s| pf(s)).collect::<Option<_>>()?;
            let hs: Vec<f64> = hs.iter().map(|s| pf(s)).collect::<Option<_>>()?;
            guarded(|| {
                let other = Dual::new(0.5, os);
                match Dual2::try_new_from(&other, real, ns, ds, hs) {
                    Ok(d) => format!(
                        "ok v={} d={} h={}x{}",
                        d.vars().len(),
                        d.dual().len(),
                        d.dual2().nrows(),
                        d.dual2().ncols()
                    ),
                    Err(_) => "err".to_string(),
                }
            })
        }
        ["trydual2", real, rest @ ..] => {
            let real = pf(real)?;
            let (ns, rest) = counted(rest)?;
            let (ds, rest) = counted(rest)?;
            let (hs, rest) = counted(rest)?;
            if !rest.is_empty() {
                return None;
            }
            let ns: Vec<String> = ns.iter().map(|s| s.to_string()).collect();
            let ds: Vec<f64> = ds.iter().map(|s| pf(s)).collect::<Option<_>>()?;
            let hs: Vec<f64> = hs.iter().map(|s| pf(s)).collect::<Option<_>>()?;
            guarded(|| match Dual2::try_new(real, ns, ds, hs) {
                Ok(d) => format!(
                    "ok v={} d={} h={}x{}",
                    d.vars().len(),
                    d.dual().len(),
                    d.dual2().nrows(),
                    d.dual2().ncols()
                ),
                Err(_) => "err".to_string(),
            })
        }
        ["written", h] => {
            // a document written by the library's own `to_json`: the tagged loader must accept it
            let s = hex_decode(h)?;
            let tag = s.split('"').nth(1).unwrap_or("?").to_string();
            guarded(|| match from_json_tagged(&s) {
                Ok((kind, _)) => format!("written {} ok", kind),
                Err(_) => format!("written {} rejected", tag),
            })
        }
        ["ccy", h] => {
            let s = hex_decode(h)?;
            guarded(|| match Ccy::try_new(&s) {
                Ok(c) => format!("ok {}", hex_encode(&serde_json::to_value(c).unwrap()["name"].as_str().unwrap().to_string())),
                Err(_) => "err".to_string(),
            })
        }
        ["fxpair", a, b] => {
            let (a, b) = (hex_decode(a)?, hex_decode(b)?);
            guarded(|| match FXPair::try_new(&a, &b) {
                Ok(p) => format!("ok {}", hex_encode(&format!("{}", p))),
                Err(_) => "err".to_string(),
            })
        }
        _ => return None,
    })
}

/* ---------- a JSON tree that can hold duplicate keys ---------- */

#[derive(Clone, Debug)]
pub enum J {
    Null,
    Bool(bool),
    Num(String),
    Str(String),
    Arr(Vec<J>),
    Obj(Vec<(String, J)>),
}

impl J {
    fn from_value(v: &Value) -> J {
        match v {
            Value::Null => J::Null,
            Value::Bool(b) => J::Bool(*b),
            Value::Number(n) => J::Num(n.to_string()),
            Value::String(s) => J::Str(s.clone()),
            Value::Array(a) => J::Arr(a.iter().map(J::from_value).collect()),
            Value::Object(m) => J::Obj(
                m.iter()
                    .map(|(k, v)| {
                        let mut j = J::from_value(v);
                        // a HashSet is written in its (per-process random) iteration order: canonicalise,
                        // so that the stream is a function of the seed alone
                        if k == "week_mask" {
                            if let J::Arr(a) = &mut j {
                                a.sort_by_key(|x| x.text());
                            }
                        }
                        (k.clone(), j)
                    })
                    .collect(),
            ),
        }
    }
    fn print(&self, out: &mut String) {
        match self {
            J::Null => out.push_str("null"),
            J::Bool(b) => out.push_str(if *b { "true" } else { "false" }),
            J::Num(s) => out.push_str(s),
            J::Str(s) => {
                out.push('"');
                out.push_str(s); // the generator never produces quotes, backslashes or control characters
                out.push('"');
            }
            J::Arr(a) => {
                out.push('[');
                for (i, x) in a.iter().enumerate() {
                    if i > 0 {
                        out.push(',');
                    }
                    x.print(out);
                }
                out.push(']');
            }
            J::Obj(kvs) => {
                out.push('{');
                for (i, (k, v)) in kvs.iter().enumerate() {
                    if i > 0 {
                        out.push(',');
                    }
                    out.push('"');
                    out.push_str(k);
                    out.push_str("\":");
                    v.print(out);
                }
                out.push('}');
            }
        }
    }
    fn text(&self) -> String {
        let mut s = String::new();
        self.print(&mut s);
        s
    }
    /// number of nodes (pre-order positions)
    fn size(&self) -> usize {
        1 + match self {
            J::Arr(a) => a.iter().map(|x| x.size()).sum(),
            J::Obj(kvs) => kvs.iter().map(|(_, v)| v.size()).sum(),
            _ => 0,
        }
    }
    /// mutable reference to the node at pre-order position `i`
    fn at(&mut self, i: usize) -> &mut J {
        if i == 0 {
            return self;
        }
        let mut i = i - 1;
        match self {
            J::Arr(a) => {
                for x in a.iter_mut() {
                    let s = x.size();
                    if i < s {
                        return x.at(i);
                    }
                    i -= s;
                }
                unreachable!()
            }
            J::Obj(kvs) => {
                for (_, v) in kvs.iter_mut() {
                    let s = v.size();
                    if i < s {
                        return v.at(i);
                    }
                    i -= s;
                }
                unreachable!()
            }
            _ => unreachable!(),
        }
    }
}

const STRINGS: [&str; 22] = [
    "x", "y", "", "usd", "eur", "USD", "usdx", "us", "€", "tgt", "ldn,tgt|fed", "xyz", "a|b|c", "tgt,", "Mon", "Sun",
    "Xyz", "2022-01-03T00:00:00", "2023-02-29T00:00:00", "2022-13-01T00:00:00", "2024-02-29T00:00:00",
    "2022-01-03T24:00:00",
];
const NUMS: [&str; 12] = ["0", "1", "2", "3", "4", "7", "255", "256", "-1", "1.5", "2.0", "1e2"];

fn random_leaf(r: &mut Rng) -> J {
    match r.below(8) {
        0 => J::Null,
        1 => J::Bool(r.chance(1, 2)),
        2 | 3 => J::Num(r.pick(&NUMS).to_string()),
        4 | 5 => J::Str(r.pick(&STRINGS).to_string()),
        6 => J::Arr(vec![]),
        _ => J::Obj(vec![]),
    }
}

/// one structural or value mutation at a random node
fn mutate(doc: &mut J, r: &mut Rng) {
    let n = doc.size();
    // the root (the tag object) is mutated less often than interior nodes
    let pos = if n > 1 && !r.chance(1, 12) { 1 + r.below((n - 1) as u64) as usize } else { 0 };
    let node = doc.at(pos);
    match node {
        J::Obj(kvs) => match r.below(7) {
            0 | 1 if !kvs.is_empty() => {
                let i = r.below(kvs.len() as u64) as usize;
                kvs.remove(i);
            }
            2 if !kvs.is_empty() => {
                // duplicate a field, with the same or another value
                let i = r.below(kvs.len() as u64) as usize;
                let (k, v) = kvs[i].clone();
                let v2 = if r.chance(1, 2) { v } else { random_leaf(r) };
                let at = r.below(kvs.len() as u64 + 1) as usize;
                kvs.insert(at, (k, v2));
            }
            3 => {
                let at = r.below(kvs.len() as u64 + 1) as usize;
                kvs.insert(at, (r.pick(&["extra", "zz", "name", "v"]).to_string(), random_leaf(r)));
            }
            4 if !kvs.is_empty() => {
                // rename a key
                let i = r.below(kvs.len() as u64) as usize;
                kvs[i].0 = r.pick(&["Dual", "Dual2", "F64", "NamedCal", "FXRates", "real", "data", "q"]).to_string();
            }
            5 => {
                // positional form: the values in their current order
                let vals: Vec<J> = kvs.iter().map(|(_, v)| v.clone()).collect();
                *node = J::Arr(vals);
            }
            _ => *node = random_leaf(r),
        },
        J::Arr(a) => match r.below(6) {
            0 | 1 if !a.is_empty() => {
                let i = r.below(a.len() as u64) as usize;
                a.remove(i);
            }
            2 if !a.is_empty() => {
                let i = r.below(a.len() as u64) as usize;
                let x = a[i].clone();
                a.insert(i, x);
            }
            3 => {
                let at = r.below(a.len() as u64 + 1) as usize;
                a.insert(at, random_leaf(r));
            }
            4 if a.len() > 1 => {
                let i = r.below(a.len() as u64 - 1) as usize;
                a.swap(i, i + 1);
            }
            _ => *node = random_leaf(r),
        },
        J::Num(s) => {
            let cur = s.clone();
            *node = match r.below(4) {
                0 => match cur.parse::<i64>() {
                    Ok(v) => J::Num((v + *r.pick(&[-2i64, -1, 1, 2])).to_string()),
                    Err(_) => J::Num(r.pick(&NUMS).to_string()),
                },
                1 | 2 => J::Num(r.pick(&NUMS).to_string()),
                _ => random_leaf(r),
            };
        }
        J::Str(_) => {
            *node = if r.chance(3, 4) { J::Str(r.pick(&STRINGS).to_string()) } else { random_leaf(r) };
        }
        _ => *node = random_leaf(r),
    }
}

/// every single-node mutation from a fixed list, at every node of `doc`
fn sweep<W: Write>(out: &mut W, doc: &J) {
    let n = doc.size();
    let leaves = [
        J::Null,
        J::Bool(true),
        J::Num("0".into()),
        J::Num("1".into()),
        J::Num("-1".into()),
        J::Num("1.5".into()),
        J::Str("x".into()),
        J::Str("usd".into()),
        J::Arr(vec![]),
        J::Obj(vec![]),
    ];
    for pos in 0..n {
        for l in &leaves {
            let mut d = doc.clone();
            *d.at(pos) = l.clone();
            emit_load(out, &d);
        }
        let mut variants: Vec<J> = Vec::new();
        {
            let mut d = doc.clone();
            match d.at(pos) {
                J::Obj(kvs) => {
                    for i in 0..kvs.len() {
                        let mut k2 = kvs.clone();
                        k2.remove(i);
                        variants.push(J::Obj(k2));
                        let mut k3 = kvs.clone();
                        let dup = k3[i].clone();
                        k3.push(dup);
                        variants.push(J::Obj(k3));
                    }
                    variants.push(J::Arr(kvs.iter().map(|(_, v)| v.clone()).collect()));
                }
                J::Arr(a) => {
                    for i in 0..a.len().min(4) {
                        let mut a2 = a.clone();
                        a2.remove(i);
                        variants.push(J::Arr(a2));
                    }
                    if !a.is_empty() {
                        variants.push(J::Arr(vec![a[0].clone()]));
                        let mut a3 = a.clone();
                        a3.push(a[0].clone());
                        variants.push(J::Arr(a3));
                        let mut a4 = a.clone();
                        a4.reverse();
                        variants.push(J::Arr(a4));
                    }
                }
                J::Num(t) => {
                    if let Ok(v) = t.parse::<i64>() {
                        for dlt in [-1i64, 1, 2] {
                            variants.push(J::Num((v + dlt).to_string()));
                        }
                        variants.push(J::Num("255".into()));
                        variants.push(J::Num("256".into()));
                    }
                }
                J::Str(_) => {
                    for t in ["", "USD", "usdx", "tgt", "xyz", "a|b|c", "2023-02-29T00:00:00", "Mon"] {
                        variants.push(J::Str(t.into()));
                    }
                    // long strings with a multi-byte character starting at every byte offset 0..=40 (2-, 3- and
                    // 4-byte encodings): any byte-indexed slicing of an echoed or truncated string hits a boundary
                    for k in 0..=40usize {
                        let c = ["\u{e9}", "\u{65e5}", "\u{1d11e}"][k % 3];
                        variants.push(J::Str(format!("{}{}{}", "a".repeat(k), c, "bcdefghijklmnopqrstuvwxyz")));
                    }
                    variants.push(J::Str("\u{65e5}\u{672c}\u{8a9e}\u{306e}\u{30ab}\u{30ec}\u{30f3}\u{30c0}\u{30fc}\u{540d}".into()));
                }
                _ => {}
            }
        }
        for v in variants {
            let mut d = doc.clone();
            *d.at(pos) = v;
            emit_load(out, &d);
        }
    }
}

/* ---------- valid documents, built by the library's own serialiser ---------- */

#[derive(serde::Serialize)]
struct Inner<T> {
    inner: T,
}

fn tagged(tag: &str, body: String) -> J {
    let v: Value = serde_json::from_str(&format!("{{\"{}\":{}}}", tag, body)).expect("own json");
    J::from_value(&v)
}

fn small(r: &mut Rng) -> f64 {
    r.dyadic()
}

/// `n` documents exactly as `to_json` writes them (raw text, written key order), cycling through every
/// serialisable type: numbers of both orders with 0..4 names and arbitrary finite doubles; plain, union and named
/// calendars; curves of every node kind (float, first order, second order) and calendar kind with node dates from
/// 1960 on; splines of the three coefficient types, solved or not; FX markets with float or dual-number quotes
pub fn emit_written<W: Write>(out: &mut W, r: &mut Rng, n: usize) {
    let names = ["x", "y", "z", "fx_eurusd"];
    let fin = |r: &mut Rng| crate::ser::any_finite(r);
    let mk_vars = |r: &mut Rng| -> Vec<String> {
        let k = r.range(0, 4) as usize;
        let mut nm: Vec<&str> = names.to_vec();
        r.shuffle(&mut nm);
        nm.truncate(k);
        nm.iter().map(|s| s.to_string()).collect()
    };
    let mk_dual = |r: &mut Rng| -> Dual {
        let v = mk_vars(r);
        let d: Vec<f64> = v.iter().map(|_| crate::ser::any_finite(r)).collect();
        Dual::try_new(crate::ser::any_finite(r), v, d).unwrap()
    };
    let mk_dual2 = |r: &mut Rng| -> Dual2 {
        let v = mk_vars(r);
        let d: Vec<f64> = v.iter().map(|_| crate::ser::any_finite(r)).collect();
        let h: Vec<f64> = (0..v.len() * v.len()).map(|_| crate::ser::any_finite(r)).collect();
        Dual2::try_new(crate::ser::any_finite(r), v, d, h).unwrap()
    };
    let mk_cal = |r: &mut Rng| -> Cal {
        let mut hols: Vec<chrono::NaiveDateTime> = Vec::new();
        for _ in 0..r.range(0, 4) {
            let d = crate::dates::day(r.range(-3000, 80000));
            if !hols.contains(&d) {
                hols.push(d);
            }
        }
        let mask: Vec<u8> = (0..7u8).filter(|_| r.chance(1, 3)).collect();
        Cal::new(hols, mask)
    };
    let mk_union = |r: &mut Rng| -> UnionCal {
        let cs: Vec<Cal> = (0..r.range(1, 3)).map(|_| mk_cal(r)).collect();
        let ss = if r.chance(1, 2) { Some((0..r.range(0, 2)).map(|_| mk_cal(r)).collect::<Vec<Cal>>()) } else { None };
        UnionCal::new(cs, ss)
    };
    let knots = |r: &mut Rng, k: usize| -> Vec<f64> {
        let mut t = vec![-(crate::ser::any_finite(r).abs().min(1e300)); k];
        let mut x = t[0];
        for _ in 0..r.range(0, 3) {
            x += r.logu(1e-3, 1e3);
            t.push(x);
        }
        x += r.logu(1e-3, 1e3);
        for _ in 0..k {
            t.push(x);
        }
        t
    };
    for i in 0..n {
        let text = match i % 12 {
            0 => format!("{{\"Dual\":{}}}", serde_json::to_string(&mk_dual(r)).unwrap()),
            1 => format!("{{\"Dual2\":{}}}", serde_json::to_string(&mk_dual2(r)).unwrap()),
            2 => format!("{{\"Cal\":{}}}", mk_cal(r).to_json().unwrap()),
            3 => format!("{{\"UnionCal\":{}}}", mk_union(r).to_json().unwrap()),
            4 => {
                let nm = *r.pick(&["tgt", "ldn,tgt|fed", "nyc", "bus|all", "fed", "all"]);
                format!("{{\"NamedCal\":{}}}", NamedCal::try_new(nm).unwrap().to_json().unwrap())
            }
            5 | 6 => {
                // a spline, solved or not: order 1..4, repeated end knots, 0..3 interior knots
                let k = r.range(1, 4) as usize;
                let t = knots(r, k);
                let nn = t.len() - k;
                let solved = r.chance(1, 2);
                match r.below(3) {
                    0 => {
                        let c = if solved { Some((0..nn).map(|_| fin(r)).collect::<Vec<f64>>()) } else { None };
                        format!("{{\"PPSplineF64\":{}}}", serde_json::to_string(&Inner { inner: PPSpline::<f64>::new(k, t, c) }).unwrap())
                    }
                    1 => {
                        let c = if solved { Some((0..nn).map(|_| mk_dual(r)).collect::<Vec<Dual>>()) } else { None };
                        format!("{{\"PPSplineDual\":{}}}", serde_json::to_string(&Inner { inner: PPSpline::<Dual>::new(k, t, c) }).unwrap())
                    }
                    _ => {
                        let c = if solved { Some((0..nn).map(|_| mk_dual2(r)).collect::<Vec<Dual2>>()) } else { None };
                        format!("{{\"PPSplineDual2\":{}}}", serde_json::to_string(&Inner { inner: PPSpline::<Dual2>::new(k, t, c) }).unwrap())
                    }
                }
            }
            7 | 8 => {
                // an FX market of 2..5 currencies, dated or not, quotes as floats or dual numbers of one order
                let ccys = ["usd", "eur", "gbp", "jpy", "sek"];
                let m = r.range(2, 5) as usize;
                let settle = if r.chance(1, 2) { None } else { Some(crate::dates::day(r.range(0, 30000))) };
                let kind = r.below(3);
                let mut qs = Vec::new();
                for j in 1..m {
                    let p = r.below(j as u64) as usize;
                    let (a, b) = if r.chance(1, 2) { (ccys[p], ccys[j]) } else { (ccys[j], ccys[p]) };
                    let v = r.logu(1e-4, 1e4);
                    let rate = match kind {
                        0 => Number::F64(v),
                        1 => Number::Dual(Dual::new(v, vec![format!("q{}", j)])),
                        _ => Number::Dual2(Dual2::new(v, vec![format!("q{}", j)])),
                    };
                    qs.push(FXRate::try_new(a, b, rate, settle).unwrap());
                }
                let base = Ccy::try_new(ccys[r.below(m as u64) as usize]).unwrap();
                let f = FXRates::try_new(qs, Some(base)).unwrap();
                format!("{{\"FXRates\":{}}}", f.to_json().unwrap())
            }
            _ => {
                let mut map = indexmap::IndexMap::new();
                let mut d = if r.chance(1, 2) { r.range(-3650, 11600) } else { r.range(10000, 20000) };
                for _ in 0..r.range(1, 6) {
                    map.insert(crate::dates::day(d), Number::F64(r.logu(1e-3, 1e3)));
                    d += r.range(1, 4000);
                }
                let interp = *r.pick(&["linear", "log_linear", "linear_zero_rate", "flat_forward", "flat_backward"]);
                let ad = *r.pick(&[ADOrder::Zero, ADOrder::One, ADOrder::Two]);
                let base = if r.chance(1, 2) { None } else { Some(fin(r)) };
                let conv = *r.pick(&[
                    Convention::One, Convention::OnePlus, Convention::Act365F, Convention::Act365FPlus, Convention::Act360,
                    Convention::ThirtyE360, Convention::Thirty360, Convention::Thirty360ISDA, Convention::ActActISDA,
                    Convention::ActActICMA, Convention::Bus252,
                ]);
                let modi = *r.pick(&[Modifier::Act, Modifier::F, Modifier::ModF, Modifier::P, Modifier::ModP]);
                let cal = match r.below(3) {
                    0 => CalType::Cal(mk_cal(r)),
                    1 => CalType::UnionCal(mk_union(r)),
                    _ => CalType::NamedCal(NamedCal::try_new(*r.pick(&["tgt", "nyc", "ldn,tgt|fed", "all"])).unwrap()),
                };
                let id = (*r.pick(&["c", "curve_A", "x1_", ""])).to_string();
                let c = CurveHandle::new(map, interp, ad, id, conv, modi, cal, base).unwrap();
                c.to_json().unwrap()
            }
        };
        writeln!(out, "written {}", hexs(&text)).unwrap();
    }
}

fn valid_doc(r: &mut Rng) -> J {
    let names = ["x", "y", "z", "fx_eurusd"];
    let ccys = ["usd", "eur", "gbp", "jpy"];
    let mk_vars = |r: &mut Rng| -> Vec<String> {
        let k = r.range(0, 3) as usize;
        let mut nm: Vec<&str> = names.to_vec();
        r.shuffle(&mut nm);
        nm.truncate(k);
        nm.iter().map(|s| s.to_string()).collect()
    };
    match r.below(11) {
        10 => {
            // a curve: every rule, order, convention, modifier and calendar kind
            let mut map = indexmap::IndexMap::new();
            let mut d = r.range(15000, 16000);
            for _ in 0..r.range(2, 4) {
                map.insert(crate::dates::day(d), Number::F64(1.0 - 0.001 * (d % 97) as f64));
                d += r.range(30, 400);
            }
            let interp = *r.pick(&["linear", "log_linear", "linear_zero_rate", "flat_forward", "flat_backward"]);
            let ad = *r.pick(&[ADOrder::Zero, ADOrder::One, ADOrder::Two]);
            let base = if r.chance(1, 2) { None } else { Some(100.0) };
            let conv = *r.pick(&[
                Convention::One, Convention::OnePlus, Convention::Act365F, Convention::Act365FPlus, Convention::Act360,
                Convention::ThirtyE360, Convention::Thirty360, Convention::Thirty360ISDA, Convention::ActActISDA,
                Convention::ActActICMA, Convention::Bus252,
            ]);
            let modi = *r.pick(&[Modifier::Act, Modifier::F, Modifier::ModF, Modifier::P, Modifier::ModP]);
            let cal = match r.below(3) {
                0 => CalType::NamedCal(NamedCal::try_new(*r.pick(&["tgt", "nyc", "ldn,tgt|fed"])).unwrap()),
                1 => CalType::Cal(Cal::new(vec![crate::dates::day(r.range(18000, 20000))], vec![5, 6])),
                _ => {
                    let c1 = Cal::new(vec![crate::dates::day(19000)], vec![5, 6]);
                    let c2 = Cal::new(vec![], vec![6]);
                    CalType::UnionCal(UnionCal::new(vec![c1, c2.clone()], if r.chance(1, 2) { Some(vec![c2]) } else { None }))
                }
            };
            let id = (*r.pick(&["c", "curve_A", "x1_"])).to_string();
            let c = CurveHandle::new(map, interp, ad, id, conv, modi, cal, base).unwrap();
            // `to_json` of the Python-facing curve is already the tagged document
            let v: Value = serde_json::from_str(&c.to_json().unwrap()).expect("own json");
            J::from_value(&v)
        }
        0 | 1 => {
            let v = mk_vars(r);
            let d: Vec<f64> = v.iter().map(|_| small(r)).collect();
            let x = Dual::try_new(small(r), v, d).unwrap();
            tagged("Dual", serde_json::to_string(&x).unwrap())
        }
        2 => {
            let v = mk_vars(r);
            let d: Vec<f64> = v.iter().map(|_| small(r)).collect();
            let h: Vec<f64> = (0..v.len() * v.len()).map(|_| small(r)).collect();
            let x = Dual2::try_new(small(r), v, d, h).unwrap();
            tagged("Dual2", serde_json::to_string(&x).unwrap())
        }
        3 => {
            let hols: Vec<chrono::NaiveDateTime> = (0..r.range(0, 3)).map(|_| crate::dates::day(r.range(18000, 20000))).collect();
            let mask: Vec<u8> = (0..7u8).filter(|_| r.chance(1, 3)).collect();
            let c = Cal::new(hols, mask);
            if r.chance(1, 2) {
                tagged("Cal", c.to_json().unwrap())
            } else {
                let c2 = Cal::new(vec![crate::dates::day(19000)], vec![5, 6]);
                let u = UnionCal::new(vec![c.clone(), c2.clone()], if r.chance(1, 2) { Some(vec![c2]) } else { None });
                tagged("UnionCal", u.to_json().unwrap())
            }
        }
        4 | 5 => {
            let nm = *r.pick(&["tgt", "ldn,tgt|fed", "nyc", "bus|all", "fed"]);
            let c = NamedCal::try_new(nm).unwrap();
            tagged("NamedCal", c.to_json().unwrap())
        }
        6 | 7 => {
            let m = r.range(2, 4) as usize;
            let settle = if r.chance(1, 2) { None } else { Some(crate::dates::day(r.range(19000, 19100))) };
            let mut qs = Vec::new();
            for j in 1..m {
                let p = r.below(j as u64) as usize;
                let rate = match r.below(3) {
                    0 => Number::F64(1.25),
                    1 => Number::Dual(Dual::new(1.5, vec!["fx_q".to_string()])),
                    _ => Number::Dual2(Dual2::new(2.5, vec!["fx_q".to_string()])),
                };
                let (a, b) = if r.chance(1, 2) { (ccys[p], ccys[j]) } else { (ccys[j], ccys[p]) };
                qs.push(FXRate::try_new(a, b, rate, settle).unwrap());
            }
            let base = Ccy::try_new(ccys[r.below(m as u64) as usize]).unwrap();
            let f = FXRates::try_new(qs, Some(base)).unwrap();
            tagged("FXRates", f.to_json().unwrap())
        }
        _ => {
            let k = r.range(2, 4) as usize;
            let mut t = vec![0.0; k];
            for i in 0..r.range(0, 2) {
                t.push(1.0 + i as f64);
            }
            for _ in 0..k {
                t.push(4.0);
            }
            let n = t.len() - k;
            match r.below(3) {
                0 => {
                    let c = if r.chance(1, 2) { Some((0..n).map(|_| small(r)).collect::<Vec<f64>>()) } else { None };
                    tagged("PPSplineF64", serde_json::to_string(&Inner { inner: PPSpline::<f64>::new(k, t, c) }).unwrap())
                }
                1 => {
                    let c = if r.chance(1, 2) {
                        Some((0..n).map(|_| Dual::new(small(r), vec!["s".to_string()])).collect::<Vec<Dual>>())
                    } else {
                        None
                    };
                    tagged("PPSplineDual", serde_json::to_string(&Inner { inner: PPSpline::<Dual>::new(k, t, c) }).unwrap())
                }
                _ => {
                    let c = if r.chance(1, 2) {
                        Some((0..n).map(|_| Dual2::new(small(r), vec!["s".to_string()])).collect::<Vec<Dual2>>())
                    } else {
                        None
                    };
                    tagged("PPSplineDual2", serde_json::to_string(&Inner { inner: PPSpline::<Dual2>::new(k, t, c) }).unwrap())
                }
            }
        }
    }
}

/* ---------- the generator ---------- */

fn hexs(s: &str) -> String {
    hex_encode(s)
}

pub fn gen_c20<W: Write>(out: &mut W, thorough: bool, seed: u64) {
    let mut r = Rng::new(seed ^ 0xC20);
    // built-in tables for the named calendars of the model
    for name in crate::dates::NAMES {
        let (mask, hols) = crate::dates::table_of(name);
        write!(out, "defname {} {} {}", name, mask, hols.len()).unwrap();
        for h in &hols {
            write!(out, " {}", h).unwrap();
        }
        writeln!(out).unwrap();
    }
    let rounds = if thorough { 400 } else { 12 };
    let mods = ["Act", "F", "ModF", "P", "ModP"];

    /* once per run: every code point of the two ranges whose lower-casing the model covers (U+0000-U+00FF,
       U+0400-U+045F) in a three-byte currency code, alone and in a pair with its own lower-cased spelling */
    // ... and the six capitals whose lower-case form has another UTF-8 length (Kelvin, Angstrom and Ohm signs, capital
    // sharp s, Ⱥ, Ⱦ): a three-byte code that stops being three bytes when lower-cased, and the reverse
    for cp in (0u32..0x100).chain(0x400..0x460).chain([0x212A, 0x212B, 0x2126, 0x1E9E, 0x23A, 0x23E]) {
        let c = char::from_u32(cp).unwrap();
        let low: String = c.to_lowercase().collect();
        let (up, dn) = match c.len_utf8() {
            1 => (format!("x{}Y", c), format!("X{}y", low)),
            2 => (format!("{}Z", c), format!("{}z", low)),
            _ => (format!("{}", c), low.clone()),
        };
        writeln!(out, "ccy {}", hexs(&up)).unwrap();
        writeln!(out, "fxpair {} {}", hexs(&up), hexs(&dn)).unwrap();
        writeln!(out, "fxpair {} {}", hexs(&up), hexs("usd")).unwrap();
        if cp > 0x460 {
            // padded so that the LOWER-CASED form has three bytes
            for pad in ["", "a", "ab"] {
                writeln!(out, "ccy {}", hexs(&format!("{}{}", c, pad))).unwrap();
                writeln!(out, "ccy {}", hexs(&format!("{}{}", pad, c))).unwrap();
                writeln!(out, "fxpair {} {}", hexs(&format!("{}{}", c, pad)), hexs(&format!("{}{}", low, pad))).unwrap();
            }
        }
        if c.len_utf8() == 2 {
            writeln!(out, "ccy {}", hexs(&format!("q{}", c))).unwrap();
            writeln!(out, "fxpair {} {}", hexs(&format!("q{}", low)), hexs(&format!("Q{}", c))).unwrap();
        }
    }

    /* once per run: EVERY target month 1970-02..2200-11 with the roll days that can exceed a month's
       length, from a start date a random number of months away (exhaustive over target months) */
    writeln!(out, "cal 1 0000011 0").unwrap();
    for target in (1970 * 12 + 1)..=(2200 * 12 + 10) {
        // target = year * 12 + (month - 1)
        let start_day = r.range(0, 84370);
        let sd = crate::dates::day(start_day);
        use chrono::Datelike;
        let start_idx = sd.year() as i64 * 12 + (sd.month() as i64 - 1);
        let k = target - start_idx;
        let roll = match (target + start_day) % 6 {
            0 => "i29",
            1 => "i30",
            2 => "i31",
            3 => "e",
            4 => "u",
            _ => "i28",
        };
        writeln!(out, "addmonths 1 {} {} {} {} 0", start_day, k, mods[(target % 5) as usize], roll).unwrap();
        // February of every year additionally with every long roll day
        if target % 12 == 1 {
            for roll in ["i29", "i30", "i31", "e"] {
                writeln!(out, "addmonths 1 {} {} Act {} 0", start_day, k, roll).unwrap();
            }
        }
    }
    writeln!(out, "reset").unwrap();

    /* once per run: a systematic sweep of SINGLE mutations over every node of template documents of
       every tagged kind */
    {
        let mut rs = Rng::new(seed ^ 0x5EE9);
        let mut seen_kinds = std::collections::HashMap::new();
        let mut tries = 0;
        while tries < 400 {
            tries += 1;
            let doc = valid_doc(&mut rs);
            let kind = match &doc {
                J::Obj(kvs) if !kvs.is_empty() => kvs[0].0.clone(),
                _ => continue,
            };
            let cnt = seen_kinds.entry(kind).or_insert(0usize);
            if *cnt >= (if thorough { 6 } else { 2 }) {
                continue;
            }
            *cnt += 1;
            sweep(out, &doc);
        }
    }

    for round in 0..rounds {
        /* date arithmetic: every 8-bit day count, on calendars of all three kinds */
        let mask: String = loop {
            let m: String = (0..7).map(|_| if r.chance(2, 7) { '1' } else { '0' }).collect();
            if m != "1111111" {
                break m;
            }
        };
        let base = r.range(3000, 80000);
        let nh = r.range(0, 12);
        write!(out, "cal 1 {} {}", mask, nh).unwrap();
        for _ in 0..nh {
            write!(out, " {}", base + r.range(-40, 40)).unwrap();
        }
        writeln!(out).unwrap();
        writeln!(out, "cal 2 0000011 2 {} {}", base + r.range(-9, 9), base + r.range(-9, 9)).unwrap();
        writeln!(out, "ucal 3 2 1 2 {}", if r.chance(1, 2) { "-" } else { "s 2" }).unwrap();
        writeln!(out, "named 4 {}", hexs(*r.pick(&["tgt", "ldn,nyc|fed", "bus", "all", "tyo|syd"]))).unwrap();
        let cal = 1 + (round % 4);
        let d0 = base + r.range(-20, 20);
        for n in -128i64..=127 {
            let s = r.below(2);
            match (n + 128 + round as i64) % 3 {
                0 => writeln!(out, "adddays {} {} {} {} {}", cal, d0 + r.range(-3, 3), n, r.pick(&mods), s).unwrap(),
                1 => writeln!(out, "addbus {} {} {} {}", cal, d0 + r.range(-3, 3), n, s).unwrap(),
                _ => writeln!(out, "lag {} {} {} {}", cal, d0 + r.range(-3, 3), n, s).unwrap(),
            }
        }
        // the extremes on every kind of call
        for n in [-128i64, -127, -1, 0, 1, 126, 127] {
            let d = d0 + r.range(-3, 3);
            writeln!(out, "adddays {} {} {} {} {}", cal, d, n, r.pick(&mods), r.below(2)).unwrap();
            writeln!(out, "addbus {} {} {} {}", cal, d, n, r.below(2)).unwrap();
            writeln!(out, "lag {} {} {} {}", cal, d, n, r.below(2)).unwrap();
        }
        // month addition: every roll day, offsets landing anywhere in 1970..2200
        for day in 1..=31 {
            let d = r.range(0, 84370);
            // months such that the target stays inside [1970-02, 2200-11]
            let lo = -(d / 31) + 2;
            let hi = (84370 - d) / 31 - 2;
            let k = match r.below(4) {
                0 => lo,
                1 => hi,
                _ => r.range(lo, hi),
            };
            writeln!(out, "addmonths {} {} {} {} i{} {}", cal, d, k, r.pick(&mods), day, r.below(2)).unwrap();
        }
        for roll in ["e", "s", "m", "u"] {
            let d = r.range(400, 84000);
            writeln!(out, "addmonths {} {} {} {} {} {}", cal, d, r.range(-12, 12), r.pick(&mods), roll, r.below(2)).unwrap();
        }
        for _ in 0..10 {
            writeln!(out, "roll {} {} {} {}", cal, d0 + r.range(-30, 30), r.pick(&mods), r.below(2)).unwrap();
        }

        /* the validating constructors */
        let names = ["x", "y", "z", "x"];
        for _ in 0..12 {
            let nv = r.range(0, 4) as usize;
            let nd = if r.chance(1, 2) { nv } else { r.range(0, 5) as usize };
            let vs: Vec<&str> = (0..nv).map(|_| *r.pick(&names)).collect();
            let ds: Vec<String> = (0..nd).map(|_| hf(r.dyadic())).collect();
            writeln!(out, "trydual {} {} {} {} {}", hf(r.dyadic()), nv, vs.join(" "), nd, ds.join(" ")).unwrap();
            let nh = match r.below(4) {
                0 => 0,
                1 => r.range(0, 17) as usize,
                _ => nv * nv,
            };
            let hs: Vec<String> = (0..nh).map(|_| hf(r.dyadic())).collect();
            writeln!(
                out,
                "trydual2 {} {} {} {} {} {} {}",
                hf(r.dyadic()),
                nv,
                vs.join(" "),
                nd,
                ds.join(" "),
                nh,
                hs.join(" ")
            )
            .unwrap();
            // ... and the same lists through `try_new_from`, onto another number's list
            let no = r.range(0, 4) as usize;
            let os: Vec<&str> = (0..no).map(|_| *r.pick(&names)).collect();
            writeln!(out, "trydualfrom {} {} {} {} {} {} {}", hf(r.dyadic()), no, os.join(" "), nv, vs.join(" "), nd, ds.join(" ")).unwrap();
            writeln!(
                out,
                "trydual2from {} {} {} {} {} {} {} {} {}",
                hf(r.dyadic()),
                no,
                os.join(" "),
                nv,
                vs.join(" "),
                nd,
                ds.join(" "),
                nh,
                hs.join(" ")
            )
            .unwrap();
        }
        let cstr = [
            "usd", "USD", "Eur", "eu", "", "euro", "€", "é1", "É1", "gbp", "JPY", "u d", "12a", "Äb", "äb", "ÄB", "Дa", "дA", "×a", "ß1",
        ];
        for _ in 0..10 {
            writeln!(out, "ccy {}", hexs(*r.pick(&cstr))).unwrap();
            writeln!(out, "fxpair {} {}", hexs(*r.pick(&cstr)), hexs(*r.pick(&cstr))).unwrap();
        }
        let nstr = [
            "tgt", "TGT", "tgt,ldn", "tgt,ldn|fed", "tgt|", "|tgt", "a|b|c", "", ",", "tgt,,ldn", "xyz", "tgt|xyz", "tgt,xyz|fed",
            "||", "bus|all", "nyc , ldn", "Tgt,Ldn|Fed,nyc",
        ];
        for _ in 0..8 {
            writeln!(out, "named 5 {}", hexs(*r.pick(&nstr))).unwrap();
        }
        // FX markets: trees, cycles, repeats, mixed settlement
        let ccys = ["usd", "eur", "gbp", "jpy"];
        for _ in 0..8 {
            let nq = r.range(0, 4) as usize;
            let mut toks = Vec::new();
            for _ in 0..nq {
                let a = *r.pick(&ccys);
                let mut b = *r.pick(&ccys);
                if a == b {
                    b = if a == "usd" { "eur" } else { "usd" };
                }
                let settle = if r.chance(3, 4) { "-".to_string() } else { r.range(19000, 19002).to_string() };
                toks.push(format!("{} {} F{} {}", a, b, hf(r.logu(0.1, 10.0)), settle));
            }
            let b = if r.chance(1, 3) { "-" } else { *r.pick(&ccys) };
            writeln!(out, "fx 6 {} {} {}", b, nq, toks.join(" ")).unwrap();
        }

        /* spline solving: regular, singular, non-finite and mismatched systems */
        for q in 0..8 {
            // regular splines (k-fold end knots) and degenerate ones: a single coefficient (n = 1), none (n = 0)
            let (k, t, pos): (usize, Vec<f64>, f64) = match q {
                6 => r.pick(&[(1usize, vec![0.0, 1.0], 1.0), (2, vec![0.0, 0.0, 1.0], 1.0), (3, vec![0.0, 0.0, 1.0, 1.0], 1.0)]).clone(),
                7 => r.pick(&[(2usize, vec![0.0, 1.0], 1.0), (1, vec![0.0, 0.5, 1.0], 1.0), (3, vec![0.0, 1.0, 2.0], 2.0)]).clone(),
                _ => {
                    let k = r.range(2, 4) as usize;
                    let mut t = vec![0.0; k];
                    let mut pos = 0.0;
                    for _ in 0..r.range(0, 3) {
                        pos += 1.0;
                        t.push(pos);
                    }
                    pos += 1.0;
                    for _ in 0..k {
                        t.push(pos);
                    }
                    (k, t, pos)
                }
            };
            let n = t.len() - k;
            let ts: Vec<String> = t.iter().map(|x| hf(*x)).collect();
            let kind = *r.pick(&["f", "1", "2"]);
            writeln!(out, "spline 7 {} {} {} {}", kind, k, t.len(), ts.join(" ")).unwrap();
            writeln!(out, "dual 21 {} 1 d {} 0", hf(r.dyadic()), hf(1.0)).unwrap();
            writeln!(out, "dual2 22 {} 1 d {} {} 0", hf(r.dyadic()), hf(1.0), hf(0.0)).unwrap();
            let ntau = match r.below(5) {
                0 => r.range(0, n as i64 + 2) as usize,
                _ => n,
            };
            let mut tau: Vec<f64> = match r.below(6) {
                0 => (0..ntau).map(|_| 100.0 + r.unit()).collect(), // all outside the knots: zero matrix
                1 => (0..ntau).map(|_| pos * 0.5).collect(),      // all equal
                _ => (0..ntau).map(|j| pos * (j as f64) / ((ntau.max(2) - 1) as f64)).collect(),
            };
            if ntau > 1 && r.chance(1, 5) {
                let j = r.below(ntau as u64) as usize;
                tau[j] = *r.pick(&[f64::NAN, f64::INFINITY, -1.0, tau[(j + 1) % ntau]]);
            }
            let ny = if r.chance(1, 6) { r.range(0, ntau as i64 + 1) as usize } else { ntau };
            let ys: Vec<String> = (0..ny)
                .map(|_| match kind {
                    "f" => format!("F{}", hf(if r.chance(1, 12) { f64::NAN } else { r.dyadic() })),
                    "1" => "H21".to_string(),
                    _ => "H22".to_string(),
                })
                .collect();
            let (ln, rn) = (r.below(3), r.below(3));
            let lsq = r.below(2);
            writeln!(
                out,
                "csolve 7 {} {} {} {} {} {}",
                ln,
                rn,
                lsq,
                ntau,
                tau.iter().map(|x| hf(*x)).collect::<Vec<_>>().join(" "),
                ys.join(" ")
            )
            .unwrap();
            writeln!(out, "spshape 7").unwrap();
            // every length-error combination, deterministically: too many / too few sites with and without
            // least squares, data of another length than the sites
            let yt = |k: usize| -> String {
                (0..k)
                    .map(|_| match kind {
                        "f" => format!("F{}", hf(1.0)),
                        "1" => "H21".to_string(),
                        _ => "H22".to_string(),
                    })
                    .collect::<Vec<_>>()
                    .join(" ")
            };
            let sites = |k: usize| -> String {
                (0..k).map(|j| hf(pos * (j as f64 + 0.5) / (k as f64 + 1.0))).collect::<Vec<_>>().join(" ")
            };
            for (nt, ny, lsq) in [(n + 1, n + 1, 0), (n + 2, n + 2, 0), (n + 1, n + 1, 1), (n.saturating_sub(1), n.saturating_sub(1), 0), (n.saturating_sub(1), n.saturating_sub(1), 1), (n, n + 1, 0), (n + 1, n, 1)] {
                writeln!(out, "csolve 7 0 0 {} {} {} {}", lsq, nt, sites(nt), yt(ny)).unwrap();
                writeln!(out, "spshape 7").unwrap();
            }
        }

        /* loading from JSON text */
        for _ in 0..(if thorough { 160 } else { 320 }) {
            let mut doc = valid_doc(&mut r);
            let nm = match r.below(10) {
                0 | 1 => 0,
                2..=7 => 1,
                8 => 2,
                _ => 3,
            };
            for _ in 0..nm {
                mutate(&mut doc, &mut r);
            }
            emit_load(out, &doc);
        }
        // texts that are not JSON at all
        for s in ["", "{", "[1,2", "{\"Dual\":}", "nul", "{\"Dual\":{\"real\":1.0,}}", "{\"NamedCal\":{\"name\":\"tgt\"}} x"] {
            writeln!(out, "loadjson {}", hexs(s)).unwrap();
        }
        writeln!(out, "reset").unwrap();
    }
}
