//! Save/load operations (C16) against the real code: byte-level bincode output for the model
//! comparison (`ser`) and model-free round trips with a query battery (`rt`).
use crate::dates::{day, AnyCal, DateState};
use crate::duals::{fmt_num, DualState};
use crate::fx::FxState;
use crate::splines::{SplineObj, SplineState};
use crate::curves::CurveState;
use rateslib::calendars::{Cal, DateRoll, NamedCal, UnionCal};
use rateslib::dual::{Dual, Dual2, Number};
use rateslib::fx::rates::{Ccy, FXRates};
use rateslib::json::JSON;
use rateslib::splines::PPSpline;
use rateslib::verif_hooks::{curve_from_json_tagged, from_json_tagged, CurveHandle};
use serde::de::DeserializeOwned;
use serde::Serialize;
use std::panic::{catch_unwind, AssertUnwindSafe};

fn hex(b: &[u8]) -> String {
    b.iter().map(|x| format!("{:02x}", x)).collect()
}

fn guarded<F: FnOnce() -> String>(f: F) -> String {
    match catch_unwind(AssertUnwindSafe(f)) {
        Ok(s) => s,
        Err(_) => "panic".to_string(),
    }
}

/// generic JSON + bincode round trip of a public serialisable type
fn rt_generic<T: Serialize + DeserializeOwned + PartialEq>(x: &T, tag: Option<&str>, fails: &mut Vec<String>) {
    match serde_json::to_string(x) {
        Ok(js) => {
            match serde_json::from_str::<T>(&js) {
                Ok(y) => {
                    if y != *x {
                        fails.push("json-roundtrip-not-equal".into());
                    }
                }
                Err(_) => fails.push("json-load-error".into()),
            }
            if let Some(tag) = tag {
                let wrapped = format!("{{\"{}\":{}}}", tag, js);
                match catch_unwind(AssertUnwindSafe(|| from_json_tagged(&wrapped))) {
                    Ok(Ok((kind, re))) => {
                        if kind != tag {
                            fails.push(format!("tagged-kind-{}", kind));
                        }
                        // strip the tag again and compare as objects
                        let inner = re.trim_start_matches(&format!("{{\"{}\":", tag));
                        let inner = &inner[..inner.len().saturating_sub(1)];
                        match serde_json::from_str::<T>(inner) {
                            Ok(y) => {
                                if y != *x {
                                    fails.push("tagged-roundtrip-not-equal".into());
                                }
                            }
                            Err(_) => fails.push("tagged-reload-error".into()),
                        }
                    }
                    Ok(Err(_)) => fails.push("tagged-load-error".into()),
                    Err(_) => fails.push("tagged-load-panic".into()),
                }
            }
        }
        Err(_) => fails.push("json-save-error".into()),
    }
    match bincode::serialize(x) {
        Ok(b) => match bincode::deserialize::<T>(&b) {
            Ok(y) => {
                if y != *x {
                    fails.push("bincode-roundtrip-not-equal".into());
                }
            }
            Err(_) => fails.push("bincode-load-error".into()),
        },
        Err(_) => fails.push("bincode-save-error".into()),
    }
}

/// wrapper giving PPSplineF64/Dual/Dual2 their serialised shape `{inner: PPSpline<T>}`
#[derive(Serialize, serde::Deserialize, PartialEq)]
struct Wrapped<T> {
    inner: T,
}

fn cal_queries<C: DateRoll>(a: &C, b: &C) -> bool {
    for d in (0..84370).step_by(37) {
        let x = day(d);
        if a.is_bus_day(&x) != b.is_bus_day(&x) || a.is_settlement(&x) != b.is_settlement(&x) {
            return false;
        }
    }
    true
}

pub fn step(
    ds: &DualState,
    cals: &DateState,
    curves: &CurveState,
    fxs: &FxState,
    spl: &SplineState,
    t: &[&str],
) -> Option<String> {
    Some(match t {
        ["ser", kind, id] => {
            let id: usize = id.parse().ok()?;
            guarded(|| {
                let b: Option<Vec<u8>> = match *kind {
                    "dual" => match ds.vals.get(&id) {
                        Some(Number::Dual(d)) => bincode::serialize(d).ok(),
                        Some(Number::Dual2(d)) => bincode::serialize(d).ok(),
                        Some(n) => bincode::serialize(n).ok(),
                        None => None,
                    },
                    "num" => ds.vals.get(&id).and_then(|n| bincode::serialize(n).ok()),
                    "cal" => match cals.cals.get(&id) {
                        Some(AnyCal::C(c)) => bincode::serialize(c).ok(),
                        Some(AnyCal::U(c)) => bincode::serialize(c).ok(),
                        Some(AnyCal::N(c)) => bincode::serialize(c).ok(),
                        None => None,
                    },
                    "curve" => curves.curves.get(&id).and_then(|c| c.to_bincode().ok()),
                    "fx" => fxs.fxs.get(&id).and_then(|(f, _)| bincode::serialize(f).ok()),
                    "spline" => match spl.sp.get(&id) {
                        Some(SplineObj::F(s)) => bincode::serialize(s).ok(),
                        Some(SplineObj::D(s)) => bincode::serialize(s).ok(),
                        Some(SplineObj::D2(s)) => bincode::serialize(s).ok(),
                        None => None,
                    },
                    _ => None,
                };
                match b {
                    Some(b) => format!("B {}", hex(&b)),
                    None => "bad-op".to_string(),
                }
            })
        }
        ["rt", kind, id] => {
            let id: usize = id.parse().ok()?;
            guarded(|| {
                let mut fails: Vec<String> = Vec::new();
                match *kind {
                    "dual" => match ds.vals.get(&id) {
                        Some(Number::Dual(d)) => rt_generic::<Dual>(d, Some("Dual"), &mut fails),
                        Some(Number::Dual2(d)) => rt_generic::<Dual2>(d, Some("Dual2"), &mut fails),
                        _ => return "bad-op".to_string(),
                    },
                    "cal" => match cals.cals.get(&id) {
                        Some(AnyCal::C(c)) => {
                            rt_generic::<Cal>(c, Some("Cal"), &mut fails);
                            if let Ok(y) = Cal::from_json(&c.to_json().unwrap()) {
                                if !cal_queries(c, &y) {
                                    fails.push("queries-differ".into());
                                }
                            }
                        }
                        Some(AnyCal::U(c)) => {
                            // UnionCal equality is behavioural
                            let js = c.to_json().unwrap();
                            match UnionCal::from_json(&js) {
                                Ok(y) => {
                                    if !(y == *c) || !cal_queries(c, &y) {
                                        fails.push("json-roundtrip-not-equal".into());
                                    }
                                }
                                Err(_) => fails.push("json-load-error".into()),
                            }
                            let b = bincode::serialize(c).unwrap();
                            match bincode::deserialize::<UnionCal>(&b) {
                                Ok(y) => {
                                    if !(y == *c) {
                                        fails.push("bincode-roundtrip-not-equal".into());
                                    }
                                }
                                Err(_) => fails.push("bincode-load-error".into()),
                            }
                            match from_json_tagged(&format!("{{\"UnionCal\":{}}}", js)) {
                                Ok((k, _)) if k == "UnionCal" => {}
                                _ => fails.push("tagged-load-error".into()),
                            }
                        }
                        Some(AnyCal::N(c)) => {
                            let js = c.to_json().unwrap();
                            match NamedCal::from_json(&js) {
                                Ok(y) => {
                                    if !(y == *c) || !cal_queries(c, &y) {
                                        fails.push("json-roundtrip-not-equal".into());
                                    }
                                }
                                Err(_) => fails.push("json-load-error".into()),
                            }
                            let b = bincode::serialize(c).unwrap();
                            match bincode::deserialize::<NamedCal>(&b) {
                                Ok(y) => {
                                    if !(y == *c) {
                                        fails.push("bincode-roundtrip-not-equal".into());
                                    }
                                }
                                Err(_) => fails.push("bincode-load-error".into()),
                            }
                            match from_json_tagged(&format!("{{\"NamedCal\":{}}}", js)) {
                                Ok((k, _)) if k == "NamedCal" => {}
                                _ => fails.push("tagged-load-error".into()),
                            }
                        }
                        None => return "bad-op".to_string(),
                    },
                    "curve" => {
                        let c = match curves.curves.get(&id) {
                            Some(c) => c,
                            None => return "bad-op".to_string(),
                        };
                        // to_json of the Python-facing Curve is the tagged form
                        match c.to_json() {
                            Ok(js) => match curve_from_json_tagged(&js) {
                                Ok(y) => {
                                    if !c.eq(&y) {
                                        fails.push("tagged-roundtrip-not-equal".into());
                                    }
                                    let nodes = c.nodes();
                                    for (k, _) in nodes.iter() {
                                        if fmt_num(&c.value(*k)) != fmt_num(&y.value(*k)) {
                                            fails.push("queries-differ".into());
                                            break;
                                        }
                                    }
                                }
                                Err(_) => fails.push("tagged-load-error".into()),
                            },
                            Err(_) => fails.push("json-save-error".into()),
                        }
                        match c.to_bincode() {
                            Ok(b) => match CurveHandle::from_bincode(&b) {
                                Ok(y) => {
                                    if !c.eq(&y) {
                                        fails.push("bincode-roundtrip-not-equal".into());
                                    }
                                }
                                Err(_) => fails.push("bincode-load-error".into()),
                            },
                            Err(_) => fails.push("bincode-save-error".into()),
                        }
                    }
                    "fx" => {
                        let (f, names) = match fxs.fxs.get(&id) {
                            Some(x) => x,
                            None => return "bad-op".to_string(),
                        };
                        // compared in the rebuilt (first-order) state; rates agree in any state
                        let mut f1 = f.clone();
                        let _ = f1.set_ad_order(rateslib::dual::ADOrder::One);
                        rt_generic::<FXRates>(&f1, Some("FXRates"), &mut fails);
                        if let Ok(y) = FXRates::from_json(&f.to_json().unwrap()) {
                            for a in names {
                                for b in names {
                                    let (ca, cb) = (Ccy::try_new(a).unwrap(), Ccy::try_new(b).unwrap());
                                    let (ra, rb) = (f.rate(&ca, &cb), y.rate(&ca, &cb));
                                    let same = match (ra, rb) {
                                        (Some(p), Some(q)) => f64::from(p) == f64::from(q),
                                        (None, None) => true,
                                        _ => false,
                                    };
                                    if !same {
                                        fails.push("queries-differ".into());
                                    }
                                }
                            }
                        }
                    }
                    "spline" => match spl.sp.get(&id) {
                        Some(SplineObj::F(s)) => {
                            rt_generic::<PPSpline<f64>>(s, None, &mut fails);
                            rt_generic::<Wrapped<PPSpline<f64>>>(&Wrapped { inner: s.clone() }, Some("PPSplineF64"), &mut fails);
                        }
                        Some(SplineObj::D(s)) => {
                            rt_generic::<PPSpline<Dual>>(s, None, &mut fails);
                            rt_generic::<Wrapped<PPSpline<Dual>>>(&Wrapped { inner: s.clone() }, Some("PPSplineDual"), &mut fails);
                        }
                        Some(SplineObj::D2(s)) => {
                            rt_generic::<PPSpline<Dual2>>(s, None, &mut fails);
                            rt_generic::<Wrapped<PPSpline<Dual2>>>(&Wrapped { inner: s.clone() }, Some("PPSplineDual2"), &mut fails);
                        }
                        None => return "bad-op".to_string(),
                    },
                    _ => return "bad-op".to_string(),
                }
                fails.sort();
                fails.dedup();
                if fails.is_empty() {
                    "ok".to_string()
                } else {
                    format!("FAIL {}", fails.join(" "))
                }
            })
        }
        ["f64json", x] => {
            // the text layer alone: does a double survive printing and parsing?
            let x = crate::duals::pf(x)?;
            guarded(|| {
                let s = serde_json::to_string(&x).unwrap();
                match serde_json::from_str::<f64>(&s) {
                    Ok(y) if y.to_bits() == x.to_bits() => "ok".to_string(),
                    Ok(y) => format!("FAIL text {} reads back as {}", s, crate::duals::hf(y)),
                    Err(_) => "FAIL parse".to_string(),
                }
            })
        }
        _ => return None,
    })
}

// ------------------------------------------------------------------------------------------
use crate::rng::Rng;
use std::io::Write;

/// an arbitrary finite double: uniform over sign, exponent and mantissa, plus specials
pub fn any_finite(r: &mut Rng) -> f64 {
    match r.below(12) {
        0 => 0.0,
        1 => -0.0,
        2 => f64::MIN_POSITIVE,
        3 => f64::MAX,
        4 => -f64::MAX,
        5 => f64::from_bits(r.below(1 << 52)), // subnormal
        6 | 7 => {
            // ordinary magnitudes with full mantissa
            let m = r.unit() * 2.0 - 1.0;
            m * (10f64).powi(r.range(-6, 9) as i32)
        }
        _ => loop {
            let x = f64::from_bits(r.next());
            if x.is_finite() {
                break x;
            }
        },
    }
}

fn hfa(r: &mut Rng) -> String {
    crate::duals::hf(any_finite(r))
}

pub fn gen_c16<W: Write>(out: &mut W, thorough: bool, seed: u64) {
    let mut r = Rng::new(seed ^ 0xC16);
    let n = if thorough { 5000 } else { 300 };
    let names = ["x", "y", "z", "long_name_1", "fx_eurusd"];
    // built-in tables for the named calendars of the model
    for name in crate::dates::NAMES {
        let (mask, hols) = crate::dates::table_of(name);
        write!(out, "defname {} {} {}", name, mask, hols.len()).unwrap();
        for h in &hols {
            write!(out, " {}", h).unwrap();
        }
        writeln!(out).unwrap();
    }
    for i in 0..n {
        // dual numbers of both orders
        let k = r.range(0, 4) as usize;
        let mut nm: Vec<&str> = names.to_vec();
        r.shuffle(&mut nm);
        nm.truncate(k);
        write!(out, "dual 1 {} {}", hfa(&mut r), k).unwrap();
        for x in &nm {
            write!(out, " {} {}", x, hfa(&mut r)).unwrap();
        }
        writeln!(out, " 0").unwrap();
        write!(out, "dual2 2 {} {}", hfa(&mut r), k).unwrap();
        for x in &nm {
            write!(out, " {} {}", x, hfa(&mut r)).unwrap();
        }
        for _ in 0..k * k {
            write!(out, " {}", hfa(&mut r)).unwrap();
        }
        writeln!(out, " 0").unwrap();
        for id in [1, 2] {
            writeln!(out, "ser dual {}", id).unwrap();
            writeln!(out, "ser num {}", id).unwrap();
            writeln!(out, "rt dual {}", id).unwrap();
        }
        // calendars of all three kinds
        let nh = r.range(0, 6);
        write!(out, "cal 3 {} {}", r.pick(&["0000011", "0000110", "1000001", "0000000"]), nh).unwrap();
        for _ in 0..nh {
            write!(out, " {}", r.range(0, 84000)).unwrap();
        }
        writeln!(out).unwrap();
        writeln!(out, "cal 4 0000011 1 {}", r.range(0, 84000)).unwrap();
        writeln!(out, "ucal 5 2 3 4 {}", if r.chance(1, 2) { "-" } else { "s 4" }).unwrap();
        let nc = *r.pick(&["tgt", "LDN,tgt|fed", "nyc,ldn", "bus|all", "Tyo"]);
        writeln!(out, "named 6 {}", crate::dates::hex_encode(nc)).unwrap();
        for id in [3, 5, 6] {
            writeln!(out, "rt cal {}", id).unwrap();
        }
        writeln!(out, "ser cal 6").unwrap();
        // FX market (tree on 2..5 currencies), sometimes with settlement
        let ccys = ["usd", "eur", "gbp", "jpy", "cad"];
        let m = r.range(2, 5) as usize;
        let settle = if r.chance(1, 2) { "-".to_string() } else { r.range(10000, 30000).to_string() };
        let mut toks = Vec::new();
        for j in 1..m {
            let p = r.below(j as u64) as usize;
            let rate = r.logu(1e-3, 1e3);
            let (a, b) = if r.chance(1, 2) { (ccys[p], ccys[j]) } else { (ccys[j], ccys[p]) };
            toks.push(format!("{} {} F{} {}", a, b, crate::duals::hf(rate), settle));
        }
        writeln!(out, "fx 7 {} {} {}", ccys[r.below(m as u64) as usize], m - 1, toks.join(" ")).unwrap();
        if r.chance(1, 3) {
            writeln!(out, "fxorder 7 {}", r.below(3)).unwrap();
        }
        writeln!(out, "ser fx 7").unwrap();
        writeln!(out, "rt fx 7").unwrap();
        // curves: every interpolation rule and derivative order
        let rule = ["linear", "log_linear", "linear_zero_rate", "flat_forward", "flat_backward"][i % 5];
        let ad = (i / 5) % 3;
        let nn = r.range(2, 6) as usize;
        let mut d = if r.chance(1, 2) { r.range(-3650, 11600) } else { r.range(10000, 20000) };
        let mut nt = Vec::new();
        for _ in 0..nn {
            let v = if rule == "log_linear" || rule == "linear_zero_rate" { r.logu(1e-3, 1e3) } else { any_finite(&mut r) };
            nt.push(format!("{} F{}", d, crate::duals::hf(v)));
            d += r.range(1, 900);
        }
        let base = if r.chance(1, 2) { "-".to_string() } else { hfa(&mut r) };
        writeln!(out, "curve 8 {} {} c{} {} {} {}", rule, ad, i % 7, base, nn, nt.join(" ")).unwrap();
        writeln!(out, "ser curve 8").unwrap();
        writeln!(out, "rt curve 8").unwrap();
        // the same nodes through the public `CurveDF` constructor and its own `to_json` / `from_json`
        writeln!(out, "curvedf 9 {} c{} {} {} {}", rule, i % 7, base, nn, nt.join(" ")).unwrap();
        if ad > 0 {
            writeln!(out, "cvorder 9 {}", ad).unwrap();
        }
        writeln!(out, "cvjson 9").unwrap();
        writeln!(out, "cvnodes 9").unwrap();
        writeln!(out, "cvad 9").unwrap();
        // documents as written by to_json: of the form the document theorems quantify over, and accepted
        crate::load::emit_written(out, &mut r, 12);
        // splines of the three types, solved and unsolved
        let kind = ["f", "1", "2"][i % 3];
        let k = r.range(2, 4) as usize;
        let mut t = vec![0.0; k];
        let mut pos = 0.0;
        for _ in 0..r.range(0, 3) {
            pos += 1.0;
            t.push(pos);
        }
        pos += 1.0;
        for _ in 0..k {
            t.push(pos);
        }
        let ts: Vec<String> = t.iter().map(|x| crate::duals::hf(*x)).collect();
        writeln!(out, "spline 9 {} {} {} {}", kind, k, t.len(), ts.join(" ")).unwrap();
        writeln!(out, "ser spline 9").unwrap();
        writeln!(out, "rt spline 9").unwrap();
        let nco = t.len() - k;
        let tau: Vec<String> = (0..nco)
            .map(|j| crate::duals::hf(t[j + 1..j + k].iter().sum::<f64>() / ((k - 1) as f64)))
            .collect();
        // data of moderate size (arbitrary doubles would overflow inside the solver: non-finite values
        // are outside the property's quantifier)
        writeln!(out, "dual 21 {} 1 d {} 0", crate::duals::hf(r.dyadic()), crate::duals::hf(r.unit())).unwrap();
        writeln!(out, "dual2 22 {} 1 d {} {} 0", crate::duals::hf(r.dyadic()), crate::duals::hf(r.unit()), crate::duals::hf(r.unit())).unwrap();
        let ys: Vec<String> = (0..nco)
            .map(|_| if kind == "f" { format!("F{}", crate::duals::hf(r.unit() * 8.0 - 4.0)) } else { format!("H{}", if kind == "1" { 21 } else { 22 }) })
            .collect();
        writeln!(out, "csolve 9 0 0 0 {} {} {}", nco, tau.join(" "), ys.join(" ")).unwrap();
        writeln!(out, "ser spline 9").unwrap();
        writeln!(out, "rt spline 9").unwrap();
        // the text layer on bare doubles
        for _ in 0..(if thorough { 250 } else { 40 }) {
            writeln!(out, "f64json {}", hfa(&mut r)).unwrap();
        }
        writeln!(out, "reset").unwrap();
        // (`reset` keeps the tables of built-in calendars on both sides)
    }
}
