//! C07: the built-in calendars queried date by date, the documented names, the fixing histories.
use crate::dates::{day, hex_decode, hex_encode, num, HI, NAMES};
use chrono::{Datelike, NaiveDate};
use rateslib::calendars::{get_calendar_by_name, Cal, DateRoll};
use std::collections::{HashMap, HashSet};
use std::io::Write;
use std::panic::catch_unwind;

#[derive(Default)]
pub struct HolState {
    cals: HashMap<String, Option<Cal>>,
}

fn cal<'a>(st: &'a mut HolState, name: &str) -> Option<&'a Cal> {
    st.cals
        .entry(name.to_string())
        .or_insert_with(|| {
            let n = name.to_string();
            catch_unwind(move || get_calendar_by_name(&n).ok()).unwrap_or(None)
        })
        .as_ref()
}

pub fn step(st: &mut HolState, t: &[&str]) -> Option<String> {
    Some(match t {
        ["rulehol", name, d] | ["partialhol", name, d] => {
            let d = day(d.parse().ok()?);
            match cal(st, name) {
                Some(c) => (c.is_holiday(&d) as u8).to_string(),
                None => "unresolved".to_string(),
            }
        }
        ["mask", name] => match cal(st, name) {
            Some(c) => {
                let mut bits = ['0'; 7];
                for n in 0..7 {
                    let d = day(n);
                    if !c.is_weekday(&d) {
                        bits[d.weekday().num_days_from_monday() as usize] = '1';
                    }
                }
                bits.iter().collect()
            }
            None => "unresolved".to_string(),
        },
        ["fixbus", name, d, _pub] => {
            let d = day(d.parse().ok()?);
            match cal(st, name) {
                Some(c) => (c.is_bus_day(&d) as u8).to_string(),
                None => "unresolved".to_string(),
            }
        }
        ["docname", hexname] => {
            let name = hex_decode(hexname)?;
            match catch_unwind(move || get_calendar_by_name(&name).is_ok()) {
                Ok(true) => "ok".to_string(),
                Ok(false) => "err".to_string(),
                Err(_) => "panic".to_string(),
            }
        }
        _ => return None,
    })
}

pub const FIXINGS: [(&str, &str); 9] = [
    ("usd", "nyc"),
    ("gbp", "ldn"),
    ("cad", "tro"),
    ("eur", "tgt"),
    ("jpy", "tyo"),
    ("sek", "stk"),
    ("nok", "osl"),
    ("aud", "syd"),
    ("inr", "mum"),
];

fn repo() -> String {
    std::env::var("VERIF_REPO").unwrap_or_else(|_| "/repo".to_string())
}

pub fn fixing_dates(ccy: &str) -> Vec<i64> {
    let path = format!("{}/python/rateslib/data/{}_rfr.csv", repo(), ccy);
    let text = std::fs::read_to_string(&path).unwrap_or_default();
    let mut out = HashSet::new();
    for (i, line) in text.lines().enumerate() {
        if i == 0 || line.trim().is_empty() {
            continue;
        }
        let d = line.split(',').next().unwrap().trim();
        let p: Vec<&str> = d.split('-').collect();
        if p.len() != 3 {
            continue;
        }
        if let (Ok(dd), Ok(mm), Ok(yy)) = (p[0].parse(), p[1].parse(), p[2].parse()) {
            if let Some(nd) = NaiveDate::from_ymd_opt(yy, mm, dd) {
                out.insert(num(&nd.and_hms_opt(0, 0, 0).unwrap()));
            }
        }
    }
    let mut v: Vec<i64> = out.into_iter().collect();
    v.sort();
    v
}

pub fn doc_names() -> Vec<String> {
    let path = format!("{}/python/rateslib/calendars/rs.py", repo());
    let text = std::fs::read_to_string(&path).unwrap_or_default();
    let mut out = Vec::new();
    let mut in_fn = false;
    for line in text.lines() {
        if line.starts_with("def get_calendar(") {
            in_fn = true;
            continue;
        }
        if in_fn && line.starts_with("def ") {
            break;
        }
        if in_fn {
            let l = line.trim_start();
            if let Some(rest) = l.strip_prefix("- *\"") {
                if let Some(end) = rest.find("\"*:") {
                    out.push(rest[..end].to_string());
                }
            }
        }
    }
    out
}

pub fn gen_c07<W: Write>(out: &mut W, _thorough: bool, _seed: u64) {
    // exhaustive: every name, every date of the supported range
    for name in NAMES {
        writeln!(out, "mask {}", name).unwrap();
    }
    for name in ["all", "bus", "tgt", "nyc", "fed", "ldn", "stk", "osl", "zur"] {
        for d in 0..=HI {
            let wd = (d + 3) % 7;
            if name == "all" || wd < 5 {
                writeln!(out, "rulehol {} {}", name, d).unwrap();
            }
        }
    }
    for name in ["tro", "tyo", "syd", "wlg", "mum"] {
        for d in 0..=HI {
            if (d + 3) % 7 < 5 {
                writeln!(out, "partialhol {} {}", name, d).unwrap();
            }
        }
    }
    for n in doc_names() {
        writeln!(out, "docname {}", hex_encode(&n)).unwrap();
    }
    for (ccy, name) in FIXINGS {
        let ds = fixing_dates(ccy);
        if ds.is_empty() {
            continue;
        }
        let set: HashSet<i64> = ds.iter().cloned().collect();
        for d in ds[0]..=*ds.last().unwrap() {
            writeln!(out, "fixbus {} {} {}", name, d, set.contains(&d) as u8).unwrap();
        }
    }
}
