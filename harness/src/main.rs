//! rl_harness: generators of operation lines and an interpreter that executes operation
//! lines against the real rateslib code (the mirror image of the Lean driver).
//!
//!   rl_harness gen <Cxx> <quick|thorough> <seed>      -> ops on stdout
//!   rl_harness run                                    -> reads ops on stdin, answers on stdout
//!   rl_harness dump <what>                            -> table dumps for the translator (C07)
mod curves;
mod dates;
mod fx;
mod duals;
mod hols;
mod linalg;
mod load;
mod rng;
mod ser;
mod splines;

use std::io::{BufRead, BufWriter, Write};

pub struct State {
    pub dates: dates::DateState,
    pub hols: hols::HolState,
    pub duals: duals::DualState,
    pub curves: curves::CurveState,
    pub fx: fx::FxState,
    pub splines: splines::SplineState,
}

fn run() {
    // silence the default panic message: panics are outcomes here
    std::panic::set_hook(Box::new(|_| {}));
    let stdin = std::io::stdin();
    let stdout = std::io::stdout();
    let mut out = BufWriter::new(stdout.lock());
    let mut st = State {
        dates: dates::DateState::default(),
        hols: hols::HolState::default(),
        duals: duals::DualState::default(),
        curves: curves::CurveState::default(),
        fx: fx::FxState::default(),
        splines: splines::SplineState::default(),
    };
    let mut worker = load::Worker::new();
    for line in stdin.lock().lines() {
        let line = line.unwrap();
        let toks: Vec<&str> = line.split_ascii_whitespace().collect();
        let ans = if (toks.len() == 2 && (toks[0] == "loadjson" || toks[0] == "loadjsonx")) || (toks.len() == 3 && toks[0] == "loadtyped") {
            worker.ask(&line)
        } else {
            step(&mut st, &toks)
        };
        writeln!(out, "{}", ans).unwrap();
    }
}

fn step(st: &mut State, toks: &[&str]) -> String {
    if toks == ["reset"] {
        st.dates = dates::DateState::default();
        st.duals = duals::DualState::default();
        st.curves = curves::CurveState::default();
        st.fx = fx::FxState::default();
        st.splines = splines::SplineState::default();
        return "ok".to_string();
    }
    if let Some(a) = dates::step(&mut st.dates, toks) {
        return a;
    }
    if let Some(a) = duals::step(&mut st.duals, toks) {
        return a;
    }
    if let Some(a) = curves::step(&st.duals, &mut st.curves, toks) {
        return a;
    }
    if let Some(a) = fx::step(&st.duals, &mut st.fx, toks) {
        return a;
    }
    if let Some(a) = linalg::step(&st.duals, toks) {
        return a;
    }
    if let Some(a) = splines::step(&st.duals, &mut st.splines, toks) {
        return a;
    }
    if let Some(a) = ser::step(&st.duals, &st.dates, &st.curves, &st.fx, &st.splines, toks) {
        return a;
    }
    if let Some(a) = load::step(toks) {
        return a;
    }
    if let Some(a) = hols::step(&mut st.hols, toks) {
        return a;
    }
    "bad-op".to_string()
}

fn main() {
    let args: Vec<String> = std::env::args().collect();
    match args.get(1).map(|s| s.as_str()) {
        Some("run") => run(),
        Some("jsonworker") => load::worker_main(),
        Some("gen") => {
            let prop = args[2].as_str();
            let tier = args[3].as_str();
            let seed: u64 = args[4].parse().unwrap();
            let stdout = std::io::stdout();
            let mut out = BufWriter::with_capacity(1 << 20, stdout.lock());
            let thorough = tier == "thorough";
            match prop {
                "C01" => duals::gen_c01(&mut out, thorough, seed),
                "C02" => duals::gen_c02(&mut out, thorough, seed),
                "C03" => duals::gen_c03(&mut out, thorough, seed),
                "C09" => fx::gen_c09(&mut out, thorough, seed),
                "C10" => fx::gen_c10(&mut out, thorough, seed),
                "C11" => curves::gen_c11(&mut out, thorough, seed),
                "C12" => curves::gen_c12(&mut out, thorough, seed),
                "C13" => linalg::gen_c13(&mut out, thorough, seed),
                "C14" => splines::gen_c14(&mut out, thorough, seed),
                "C15" => splines::gen_c15(&mut out, thorough, seed),
                "C16" => ser::gen_c16(&mut out, thorough, seed),
                "C17" => duals::gen_c17(&mut out, thorough, seed),
                "C18" => duals::gen_c18(&mut out, thorough, seed),
                "C19" => duals::gen_c19(&mut out, thorough, seed),
                "C20" => load::gen_c20(&mut out, thorough, seed),
                "C04" => dates::gen_c04(&mut out, thorough, seed),
                "C05" => dates::gen_c05(&mut out, thorough, seed),
                "C06" => dates::gen_c06(&mut out, thorough, seed),
                "C07" => hols::gen_c07(&mut out, thorough, seed),
                "C08" => dates::gen_c08(&mut out, thorough, seed),
                _ => {
                    eprintln!("unknown property {}", prop);
                    std::process::exit(2);
                }
            }
            out.flush().unwrap();
        }
        Some("dump") => {
            let stdout = std::io::stdout();
            let mut out = BufWriter::with_capacity(1 << 20, stdout.lock());
            dates::dump(&mut out, args[2].as_str());
            out.flush().unwrap();
        }
        _ => {
            eprintln!("usage: rl_harness gen|run|dump ...");
            std::process::exit(2);
        }
    }
}
