//! Dual-number operations (C01, C02, C03, C17, C18, C19) against the real code.
use crate::rng::Rng;
use ndarray::{Array1, Array2};
use num_traits::{Pow, Signed};
use rateslib::dual::{
    set_order, set_order_clone, ADOrder, Dual, Dual2, Gradient1, Gradient2, MathFuncs, Number, Vars,
};
use std::collections::HashMap;
use std::io::Write;
use std::panic::{catch_unwind, AssertUnwindSafe};

#[derive(Default)]
pub struct DualState {
    pub vals: HashMap<usize, Number>,
    pub grp: HashMap<usize, usize>,
    pub first_of_grp: HashMap<usize, usize>,
}

pub fn hf(x: f64) -> String {
    format!("h{:016x}", x.to_bits())
}

pub fn pf(s: &str) -> Option<f64> {
    let s = s.strip_prefix('h').unwrap_or(s);
    if s.len() != 16 {
        return None;
    }
    u64::from_str_radix(s, 16).ok().map(f64::from_bits)
}

fn lookup1(vars: &[String], dual: &Array1<f64>, n: &str) -> f64 {
    match vars.iter().position(|v| v == n) {
        Some(i) if i < dual.len() => dual[i],
        _ => 0.0,
    }
}

pub fn fmt_dual(d: &Dual) -> String {
    let vars: Vec<String> = d.vars().iter().cloned().collect();
    let mut names = vars.clone();
    names.sort();
    let mut s = format!("D {} v{} d{}", hf(d.real()), vars.len(), d.dual().len());
    for n in &names {
        s.push_str(&format!(" {} {}", n, hf(lookup1(&vars, d.dual(), n))));
    }
    if names.is_empty() {
        s.push(' ');
    }
    s
}

pub fn fmt_dual2(d: &Dual2) -> String {
    let vars: Vec<String> = d.vars().iter().cloned().collect();
    let mut names = vars.clone();
    names.sort();
    let (r, c) = d.dual2().dim();
    let mut s = format!(
        "D2 {} v{} d{} r{} c{}-{}",
        hf(d.real()),
        vars.len(),
        d.dual().len(),
        r,
        if r == 0 { vars.len() } else { c },
        if r == 0 { vars.len() } else { c }
    );
    for n in &names {
        s.push_str(&format!(" {} {}", n, hf(lookup1(&vars, d.dual(), n))));
    }
    if names.is_empty() {
        s.push(' ');
    }
    s.push_str(" |");
    for n in &names {
        for m in &names {
            let i = vars.iter().position(|v| v == n).unwrap();
            let j = vars.iter().position(|v| v == m).unwrap();
            let v = if i < r && j < c { d.dual2()[[i, j]] } else { 0.0 };
            s.push_str(&format!(" {}", hf(v)));
        }
    }
    if names.is_empty() {
        s.push(' ');
    }
    s
}

pub fn fmt_num(n: &Number) -> String {
    match n {
        Number::F64(f) => format!("F {}", hf(*f)),
        Number::Dual(d) => fmt_dual(d),
        Number::Dual2(d) => fmt_dual2(d),
    }
}

fn guarded<F: FnOnce() -> String>(f: F, on_panic: &str) -> String {
    match catch_unwind(AssertUnwindSafe(f)) {
        Ok(s) => s,
        Err(_) => on_panic.to_string(),
    }
}

fn parse_named<'a>(t: &'a [&'a str]) -> Option<(Vec<String>, Vec<f64>, &'a [&'a str])> {
    let k: usize = t.first()?.parse().ok()?;
    if t.len() < 1 + 2 * k {
        return None;
    }
    let mut ns = Vec::new();
    let mut cs = Vec::new();
    for i in 0..k {
        ns.push(t[1 + 2 * i].to_string());
        cs.push(pf(t[2 + 2 * i])?);
    }
    Some((ns, cs, &t[1 + 2 * k..]))
}

/// apply a binary operator in one of the four owned/borrowed operand forms
macro_rules! forms {
    ($a:expr, $b:expr, $form:expr, $op:tt) => {
        match $form % 4 {
            0 => $a $op $b,
            1 => $a.clone() $op $b,
            2 => $a $op $b.clone(),
            _ => $a.clone() $op $b.clone(),
        }
    };
}

macro_rules! bin_typed {
    ($a:expr, $b:expr, $form:expr, $op:expr) => {
        match $op {
            "add" => forms!($a, $b, $form, +),
            "sub" => forms!($a, $b, $form, -),
            "mul" => forms!($a, $b, $form, *),
            "div" => forms!($a, $b, $form, /),
            _ => forms!($a, $b, $form, %),
        }
    };
}

fn bin_direct(op: &str, a: &Number, b: &Number, form: usize) -> Number {
    match (a, b) {
        (Number::F64(x), Number::F64(y)) => Number::F64(bin_typed!(x, y, form, op)),
        (Number::F64(x), Number::Dual(y)) => Number::Dual(bin_typed!(x, y, form, op)),
        (Number::F64(x), Number::Dual2(y)) => Number::Dual2(bin_typed!(x, y, form, op)),
        (Number::Dual(x), Number::F64(y)) => Number::Dual(bin_typed!(x, y, form, op)),
        (Number::Dual(x), Number::Dual(y)) => Number::Dual(bin_typed!(x, y, form, op)),
        (Number::Dual2(x), Number::F64(y)) => Number::Dual2(bin_typed!(x, y, form, op)),
        (Number::Dual2(x), Number::Dual2(y)) => Number::Dual2(bin_typed!(x, y, form, op)),
        // mixed orders exist only through the Number container
        _ => bin_typed!(a, b, form, op),
    }
}

fn un_op(op: &str, a: &Number) -> Option<Number> {
    Some(match (op, a) {
        ("neg", Number::Dual(d)) => Number::Dual(-(d.clone())),
        ("neg", Number::Dual2(d)) => Number::Dual2(-(d.clone())),
        ("negref", Number::Dual(d)) => Number::Dual(-d),
        ("negref", Number::Dual2(d)) => Number::Dual2(-d),
        ("neg", Number::F64(_)) => -(a.clone()),
        ("negref", Number::F64(_)) => -a,
        // negation of the generic container itself, owned and borrowed, whatever it holds
        ("nneg", _) => -(a.clone()),
        ("nnegref", _) => -a,
        // the container's own signum (dual kinds: a variable-free constant)
        ("nsignum", Number::Dual(_)) | ("nsignum", Number::Dual2(_)) => a.signum(),
        ("abs", _) => a.abs(),
        ("signum", Number::Dual(d)) => Number::Dual(d.signum()),
        ("signum", Number::Dual2(d)) => Number::Dual2(d.signum()),
        ("exp", _) => a.exp(),
        ("log", _) => a.log(),
        ("ncdf", _) => a.norm_cdf(),
        ("nicdf", _) => a.inv_norm_cdf(),
        _ => return None,
    })
}

fn pow_num(a: &Number, p: f64, owned: bool) -> Number {
    match a {
        Number::F64(f) => Number::F64(f.pow(p)),
        Number::Dual(d) => Number::Dual(if owned { d.clone().pow(p) } else { d.pow(p) }),
        Number::Dual2(d) => Number::Dual2(if owned { d.clone().pow(p) } else { d.pow(p) }),
    }
}

fn eval_expr<'a>(st: &DualState, t: &'a [&'a str], depth: usize) -> Option<(Number, &'a [&'a str])> {
    let (h, rest) = t.split_first()?;
    if let Some(id) = h.strip_prefix('L') {
        return Some((st.vals.get(&id.parse().ok()?)?.clone(), rest));
    }
    if let Some(x) = h.strip_prefix('K') {
        return Some((Number::F64(pf(x)?), rest));
    }
    if ["+", "-", "*", "/", "%"].contains(h) {
        let (a, r1) = eval_expr(st, rest, depth + 1)?;
        let (b, r2) = eval_expr(st, r1, depth + 1)?;
        let op = match *h {
            "+" => "add",
            "-" => "sub",
            "*" => "mul",
            "/" => "div",
            _ => "rem",
        };
        // operand form varies with position in the tree
        return Some((bin_direct(op, &a, &b, depth + r2.len()), r2));
    }
    if let Some(p) = h.strip_prefix('p') {
        let p = pf(p)?;
        let (a, r1) = eval_expr(st, rest, depth + 1)?;
        return Some((pow_num(&a, p, depth % 2 == 0), r1));
    }
    let name = match *h {
        "n" => "neg",
        "N" => "negref",
        "e" => "exp",
        "l" => "log",
        "c" => "ncdf",
        "q" => "nicdf",
        "a" => "abs",
        _ => return None,
    };
    let (a, r1) = eval_expr(st, rest, depth + 1)?;
    Some((un_op(name, &a)?, r1))
}

fn cmp_nums(op: &str, a: &Number, b: &Number) -> bool {
    match op {
        "eq" => a == b,
        "ne" => a != b,
        "lt" => a < b,
        "gt" => a > b,
        "le" => a <= b,
        _ => a >= b,
    }
}

pub fn step(st: &mut DualState, t: &[&str]) -> Option<String> {
    Some(match t {
        ["flt", id, x] => {
            let id: usize = id.parse().ok()?;
            st.vals.insert(id, Number::F64(pf(x)?));
            st.grp.insert(id, 0);
            "ok".to_string()
        }
        ["dual", id, real, rest @ ..] => {
            let id: usize = id.parse().ok()?;
            let real = pf(real)?;
            let (ns, cs, tail) = parse_named(rest)?;
            let g: usize = tail.first()?.parse().ok()?;
            // a later member of a pointer group with the same variable list shares the Arc
            let shared = if g != 0 {
                st.first_of_grp.get(&g).and_then(|f| match st.vals.get(f) {
                    Some(Number::Dual(fd))
                        if fd.vars().iter().cloned().collect::<Vec<_>>() == ns && cs.len() == ns.len() =>
                    {
                        Some(Dual::clone_from(fd, real, Array1::from_vec(cs.clone())))
                    }
                    _ => None,
                })
            } else {
                None
            };
            let r = match shared {
                Some(d) => Some(d),
                None => catch_unwind(AssertUnwindSafe(|| Dual::try_new(real, ns, cs).ok())).ok()?,
            };
            match r {
                Some(d) => {
                    st.vals.insert(id, Number::Dual(d));
                    st.grp.insert(id, g);
                    if g != 0 {
                        st.first_of_grp.entry(g).or_insert(id);
                    }
                    "ok".to_string()
                }
                None => "err".to_string(),
            }
        }
        ["dual2", id, real, rest @ ..] => {
            let id: usize = id.parse().ok()?;
            let real = pf(real)?;
            let (ns, cs, tail) = parse_named(rest)?;
            let g: usize = tail.last()?.parse().ok()?;
            let hs: Vec<f64> = tail[..tail.len() - 1].iter().map(|s| pf(s)).collect::<Option<_>>()?;
            let n = ns.len();
            let shared = if g != 0 && hs.len() == n * n && cs.len() == n {
                st.first_of_grp.get(&g).and_then(|f| match st.vals.get(f) {
                    Some(Number::Dual2(fd)) if fd.vars().iter().cloned().collect::<Vec<_>>() == ns => {
                        Some(Dual2::clone_from(
                            fd,
                            real,
                            Array1::from_vec(cs.clone()),
                            Array2::from_shape_vec((n, n), hs.clone()).unwrap(),
                        ))
                    }
                    _ => None,
                })
            } else {
                None
            };
            let r = match shared {
                Some(d) => Some(d),
                None => catch_unwind(AssertUnwindSafe(|| Dual2::try_new(real, ns, cs, hs).ok())).ok()?,
            };
            match r {
                Some(d) => {
                    st.vals.insert(id, Number::Dual2(d));
                    st.grp.insert(id, g);
                    if g != 0 {
                        st.first_of_grp.entry(g).or_insert(id);
                    }
                    "ok".to_string()
                }
                None => "err".to_string(),
            }
        }
        ["dualfrom", id, other, mode, real, rest @ ..] => {
            // `Dual::new_from` / `Dual::try_new_from`: a fresh number re-indexed onto ANOTHER number's variable list
            let id: usize = id.parse().ok()?;
            let real = pf(real)?;
            let (ns, mut cs, tail) = parse_named(rest)?;
            for x in tail {
                cs.push(pf(x)?);
            }
            let o = st.vals.get(&other.parse().ok()?)?.clone();
            let isnew = *mode == "n";
            let r = catch_unwind(AssertUnwindSafe(|| match &o {
                Number::Dual(od) if isnew => Some(Some(Dual::new_from(od, real, ns.clone()))),
                Number::Dual2(od) if isnew => Some(Some(Dual::new_from(od, real, ns.clone()))),
                Number::Dual(od) => Some(Dual::try_new_from(od, real, ns.clone(), cs.clone()).ok()),
                Number::Dual2(od) => Some(Dual::try_new_from(od, real, ns.clone(), cs.clone()).ok()),
                Number::F64(_) => None,
            }));
            match r {
                Err(_) => "panic".to_string(),
                Ok(None) => return None,
                Ok(Some(None)) => "err".to_string(),
                Ok(Some(Some(d))) => {
                    let n = Number::Dual(d);
                    let s = fmt_num(&n);
                    st.vals.insert(id, n);
                    st.grp.insert(id, 0);
                    s
                }
            }
        }
        ["dual2from", id, other, mode, real, rest @ ..] => {
            let id: usize = id.parse().ok()?;
            let real = pf(real)?;
            let (ns, cs, tail) = parse_named(rest)?;
            let hs: Vec<f64> = tail.iter().map(|s| pf(s)).collect::<Option<_>>()?;
            let o = st.vals.get(&other.parse().ok()?)?.clone();
            let isnew = *mode == "n";
            let r = catch_unwind(AssertUnwindSafe(|| match &o {
                Number::Dual(od) if isnew => Some(Some(Dual2::new_from(od, real, ns.clone()))),
                Number::Dual2(od) if isnew => Some(Some(Dual2::new_from(od, real, ns.clone()))),
                Number::Dual(od) => Some(Dual2::try_new_from(od, real, ns.clone(), cs.clone(), hs.clone()).ok()),
                Number::Dual2(od) => Some(Dual2::try_new_from(od, real, ns.clone(), cs.clone(), hs.clone()).ok()),
                Number::F64(_) => None,
            }));
            match r {
                Err(_) => "panic".to_string(),
                Ok(None) => return None,
                Ok(Some(None)) => "err".to_string(),
                Ok(Some(Some(d))) => {
                    let n = Number::Dual2(d);
                    let s = fmt_num(&n);
                    st.vals.insert(id, n);
                    st.grp.insert(id, 0);
                    s
                }
            }
        }
        ["bin", op, i, j] => {
            let (i, j): (usize, usize) = (i.parse().ok()?, j.parse().ok()?);
            let a = st.vals.get(&i)?;
            let b = st.vals.get(&j)?;
            guarded(|| fmt_num(&bin_direct(op, a, b, i + 3 * j)), "refused")
        }
        ["numop", op, i, j] => {
            // through the Number container, borrowed and owned
            let (i, j): (usize, usize) = (i.parse().ok()?, j.parse().ok()?);
            let a = st.vals.get(&i)?;
            let b = st.vals.get(&j)?;
            guarded(|| fmt_num(&bin_typed!(a, b, i + j, *op)), "refused")
        }
        ["binf", op, i, x] => {
            let i: usize = i.parse().ok()?;
            let a = st.vals.get(&i)?;
            let x = pf(x)?;
            guarded(|| fmt_num(&bin_direct(op, a, &Number::F64(x), i)), "refused")
        }
        ["fbin", op, x, i] => {
            let i: usize = i.parse().ok()?;
            let a = st.vals.get(&i)?;
            let x = pf(x)?;
            guarded(|| fmt_num(&bin_direct(op, &Number::F64(x), a, i)), "refused")
        }
        ["numopf", op, i, x] => {
            let i: usize = i.parse().ok()?;
            let a = st.vals.get(&i)?;
            let x = pf(x)?;
            guarded(|| fmt_num(&bin_typed!(a, x, i, *op)), "refused")
        }
        ["fnumop", op, x, i] => {
            let i: usize = i.parse().ok()?;
            let a = st.vals.get(&i)?;
            let x = pf(x)?;
            guarded(
                || {
                    fmt_num(&match *op {
                        "add" => x + a,
                        "sub" => x - a,
                        "mul" => x * a,
                        "div" => x / a,
                        _ => x % a,
                    })
                },
                "refused",
            )
        }
        ["cmp", op, i, j] => {
            let a = st.vals.get(&i.parse().ok()?)?;
            let b = st.vals.get(&j.parse().ok()?)?;
            guarded(
                || {
                    let r = match (a, b) {
                        (Number::Dual(x), Number::Dual(y)) => match *op {
                            "eq" => x == y,
                            "ne" => x != y,
                            "lt" => x < y,
                            "gt" => x > y,
                            "le" => x <= y,
                            _ => x >= y,
                        },
                        (Number::Dual2(x), Number::Dual2(y)) => match *op {
                            "eq" => x == y,
                            "ne" => x != y,
                            "lt" => x < y,
                            "gt" => x > y,
                            "le" => x <= y,
                            _ => x >= y,
                        },
                        _ => cmp_nums(op, a, b),
                    };
                    (r as u8).to_string()
                },
                "refused",
            )
        }
        ["cmpf", op, i, x] => {
            let a = st.vals.get(&i.parse().ok()?)?;
            let x = pf(x)?;
            guarded(
                || {
                    let r = match a {
                        Number::Dual(d) => match *op {
                            "eq" => *d == x,
                            "lt" => *d < x,
                            "gt" => *d > x,
                            "le" => *d <= x,
                            _ => *d >= x,
                        },
                        Number::Dual2(d) => match *op {
                            "eq" => *d == x,
                            "lt" => *d < x,
                            "gt" => *d > x,
                            "le" => *d <= x,
                            _ => *d >= x,
                        },
                        n => match *op {
                            "eq" => *n == x,
                            "lt" => *n < x,
                            "gt" => *n > x,
                            "le" => *n <= x,
                            _ => *n >= x,
                        },
                    };
                    (r as u8).to_string()
                },
                "refused",
            )
        }
        ["fcmp", op, x, i] => {
            let a = st.vals.get(&i.parse().ok()?)?;
            let x = pf(x)?;
            guarded(
                || {
                    let r = match a {
                        Number::Dual(d) => match *op {
                            "eq" => x == *d,
                            "lt" => x < *d,
                            "gt" => x > *d,
                            "le" => x <= *d,
                            _ => x >= *d,
                        },
                        Number::Dual2(d) => match *op {
                            "eq" => x == *d,
                            "lt" => x < *d,
                            "gt" => x > *d,
                            "le" => x <= *d,
                            _ => x >= *d,
                        },
                        n => match *op {
                            "eq" => x == *n,
                            "lt" => x < *n,
                            "gt" => x > *n,
                            "le" => x <= *n,
                            _ => x >= *n,
                        },
                    };
                    (r as u8).to_string()
                },
                "refused",
            )
        }
        // the same comparisons through the generic `Number` container's own impls
        ["ncmp", op, i, j] => {
            let a = st.vals.get(&i.parse().ok()?)?;
            let b = st.vals.get(&j.parse().ok()?)?;
            guarded(|| (cmp_nums(op, a, b) as u8).to_string(), "refused")
        }
        ["ncmpf", op, i, x] => {
            let a = st.vals.get(&i.parse().ok()?)?;
            let x = pf(x)?;
            guarded(
                || {
                    let r = match *op {
                        "eq" => *a == x,
                        "lt" => *a < x,
                        "gt" => *a > x,
                        "le" => *a <= x,
                        _ => *a >= x,
                    };
                    (r as u8).to_string()
                },
                "refused",
            )
        }
        ["fncmp", op, x, i] => {
            let a = st.vals.get(&i.parse().ok()?)?;
            let x = pf(x)?;
            guarded(
                || {
                    let r = match *op {
                        "eq" => x == *a,
                        "lt" => x < *a,
                        "gt" => x > *a,
                        "le" => x <= *a,
                        _ => x >= *a,
                    };
                    (r as u8).to_string()
                },
                "refused",
            )
        }
        ["un", op, i] => {
            let a = st.vals.get(&i.parse().ok()?)?;
            guarded(|| un_op(op, a).map(|v| fmt_num(&v)).unwrap_or("bad-op".into()), "panic")
        }
        ["neut", which, i] => {
            // the library's OWN zero / one elements (`Zero::zero`, `One::one`) combined with a stored number of the
            // same type: zero + x, x + zero, one * x, x * one; `n..` forms go through the `Number` container
            use num_traits::{One, Zero};
            let a = st.vals.get(&i.parse().ok()?)?.clone();
            let which = which.to_string();
            guarded(
                || {
                    let typed = |z: Number, x: Number, zero_left: bool, mul: bool| -> Number {
                        match (mul, zero_left) {
                            (false, true) => z + x,
                            (false, false) => x + z,
                            (true, true) => z * x,
                            (true, false) => x * z,
                        }
                    };
                    let (mul, left, container) = match which.as_str() {
                        "za" => (false, true, false),
                        "az" => (false, false, false),
                        "om" => (true, true, false),
                        "mo" => (true, false, false),
                        "nza" => (false, true, true),
                        "naz" => (false, false, true),
                        "nom" => (true, true, true),
                        "nmo" => (true, false, true),
                        _ => return "bad-op".to_string(),
                    };
                    let e: Number = if container {
                        if mul { Number::one() } else { Number::zero() }
                    } else {
                        match (&a, mul) {
                            (Number::F64(_), false) => Number::F64(f64::zero()),
                            (Number::F64(_), true) => Number::F64(f64::one()),
                            (Number::Dual(_), false) => Number::Dual(Dual::zero()),
                            (Number::Dual(_), true) => Number::Dual(Dual::one()),
                            (Number::Dual2(_), false) => Number::Dual2(Dual2::zero()),
                            (Number::Dual2(_), true) => Number::Dual2(Dual2::one()),
                        }
                    };
                    fmt_num(&typed(e, a.clone(), left, mul))
                },
                "panic",
            )
        }
        ["iszero", i] => {
            use num_traits::Zero;
            let a = st.vals.get(&i.parse().ok()?)?.clone();
            guarded(
                || {
                    let typed = match &a {
                        Number::F64(f) => f.is_zero(),
                        Number::Dual(d) => d.is_zero(),
                        Number::Dual2(d) => d.is_zero(),
                    };
                    format!("{} {}", typed as u8, a.is_zero() as u8)
                },
                "panic",
            )
        }
        ["isone", i] => {
            use num_traits::One;
            let a = st.vals.get(&i.parse().ok()?)?.clone();
            guarded(
                || {
                    let typed = match &a {
                        Number::F64(f) => f.is_one(),
                        Number::Dual(d) => d.is_one(),
                        Number::Dual2(d) => d.is_one(),
                    };
                    format!("{}", typed as u8)
                },
                "panic",
            )
        }
        ["npowc", i, p] => {
            // `Pow<f64>` of the generic container itself, owned (even handles) or borrowed (odd handles)
            let i: usize = i.parse().ok()?;
            let a = st.vals.get(&i)?.clone();
            let p = pf(p)?;
            guarded(|| fmt_num(&(if i % 2 == 0 { a.clone().pow(p) } else { (&a).pow(p) })), "panic")
        }
        ["sign", i] => {
            // `Signed::is_positive` / `is_negative` of the typed number
            use num_traits::Signed;
            let a = st.vals.get(&i.parse().ok()?)?.clone();
            guarded(
                || {
                    let typed = match &a {
                        Number::F64(f) => format!("{} {}", f.is_sign_positive() as u8, f.is_sign_negative() as u8),
                        Number::Dual(d) => format!("{} {}", d.is_positive() as u8, d.is_negative() as u8),
                        Number::Dual2(d) => format!("{} {}", d.is_positive() as u8, d.is_negative() as u8),
                    };
                    // and through the generic container
                    format!("{} {} {}", typed, a.is_positive() as u8, a.is_negative() as u8)
                },
                "panic",
            )
        }
        ["powc", i, p] => {
            let i: usize = i.parse().ok()?;
            let a = st.vals.get(&i)?;
            let p = pf(p)?;
            guarded(|| fmt_num(&pow_num(a, p, i % 2 == 0)), "panic")
        }
        ["eval", expr @ ..] => guarded(
            || match eval_expr(st, expr, 0) {
                Some((v, rest)) if rest.is_empty() => fmt_num(&v),
                _ => "bad-op".to_string(),
            },
            "refused",
        ),
        ["evalgrad2", expr @ ..] => guarded(
            || match eval_expr(st, expr, 0) {
                Some((Number::Dual2(d), rest)) if rest.is_empty() => {
                    let mut names: Vec<String> = d.vars().iter().cloned().collect();
                    names.sort();
                    let g1 = d.gradient1(names.clone());
                    let g2 = d.gradient2(names.clone());
                    let down = Dual::from(&d);
                    let mut s = format!("E2 {} n{}", hf(d.real()), names.len());
                    for x in g1.iter() {
                        s.push_str(&format!(" {}", hf(*x)));
                    }
                    s.push_str(" |");
                    for x in g2.iter() {
                        s.push_str(&format!(" {}", hf(*x)));
                    }
                    s.push_str(" | ");
                    s.push_str(&fmt_dual(&down));
                    s
                }
                Some((v, rest)) if rest.is_empty() => format!("E2 {}", fmt_num(&v)),
                _ => "bad-op".to_string(),
            },
            "refused",
        ),
        ["grad1", i, names @ ..] => {
            let a = st.vals.get(&i.parse().ok()?)?;
            let names: Vec<String> = names.iter().map(|s| s.to_string()).collect();
            guarded(
                || {
                    let g = match a {
                        Number::Dual(d) => d.gradient1(names),
                        Number::Dual2(d) => d.gradient1(names),
                        _ => return "bad-op".to_string(),
                    };
                    let mut s = "G".to_string();
                    for x in g.iter() {
                        s.push(' ');
                        s.push_str(&hf(*x));
                    }
                    if g.is_empty() {
                        s.push(' ');
                    }
                    s
                },
                "panic",
            )
        }
        ["grad2", i, names @ ..] => {
            let a = st.vals.get(&i.parse().ok()?)?;
            let names: Vec<String> = names.iter().map(|s| s.to_string()).collect();
            guarded(
                || match a {
                    Number::Dual2(d) => {
                        let g = d.gradient2(names);
                        let mut s = format!("H r{}", g.dim().0);
                        for x in g.iter() {
                            s.push(' ');
                            s.push_str(&hf(*x));
                        }
                        if g.is_empty() {
                            s.push(' ');
                        }
                        s
                    }
                    _ => "bad-op".to_string(),
                },
                "panic",
            )
        }
        ["manifold", i, names @ ..] => {
            let a = st.vals.get(&i.parse().ok()?)?;
            let names: Vec<String> = names.iter().map(|s| s.to_string()).collect();
            guarded(
                || match a {
                    Number::Dual2(d) => {
                        let g = d.gradient1_manifold(names);
                        let parts: Vec<String> = g.iter().map(fmt_dual2).collect();
                        format!("M {}", parts.join(" ; "))
                    }
                    _ => "bad-op".to_string(),
                },
                "panic",
            )
        }
        ["manifoldprod", i, j, names @ ..] => {
            let a = st.vals.get(&i.parse().ok()?)?;
            let b = st.vals.get(&j.parse().ok()?)?;
            let names: Vec<String> = names.iter().map(|s| s.to_string()).collect();
            guarded(
                || match (a, b) {
                    (Number::Dual2(a), Number::Dual2(b)) => {
                        let ab = a * b;
                        let gab = ab.gradient1_manifold(names.clone());
                        let ga = a.gradient1_manifold(names.clone());
                        let gb = b.gradient1_manifold(names.clone());
                        let mut s = "MP".to_string();
                        for k in 0..names.len() {
                            let lhs = &gab[k];
                            let rhs = &ga[k] * b + a * &gb[k];
                            s.push_str(&format!(" ; {}", hf(lhs.real())));
                            for x in lhs.gradient1(names.clone()).iter() {
                                s.push_str(&format!(" {}", hf(*x)));
                            }
                            s.push_str(&format!(" = {}", hf(rhs.real())));
                            for x in rhs.gradient1(names.clone()).iter() {
                                s.push_str(&format!(" {}", hf(*x)));
                            }
                        }
                        s
                    }
                    _ => "bad-op".to_string(),
                },
                "panic",
            )
        }
        ["sum", kind, ids @ ..] => {
            let vs: Vec<Number> = ids
                .iter()
                .map(|s| st.vals.get(&s.parse().ok()?).cloned())
                .collect::<Option<_>>()?;
            guarded(
                || match *kind {
                    "1" => {
                        let ds: Vec<Dual> = vs.iter().map(|v| Dual::from(v)).collect();
                        fmt_dual(&ds.into_iter().sum::<Dual>())
                    }
                    "2" => {
                        let ds: Vec<Dual2> = vs.iter().map(|v| Dual2::from(v)).collect();
                        fmt_dual2(&ds.into_iter().sum::<Dual2>())
                    }
                    _ => fmt_num(&vs.into_iter().sum::<Number>()),
                },
                "refused",
            )
        }
        ["setord", i, ord, names @ ..] => {
            let i: usize = i.parse().ok()?;
            let a = st.vals.get(&i)?;
            let o = match *ord {
                "0" => ADOrder::Zero,
                "1" => ADOrder::One,
                "2" => ADOrder::Two,
                _ => return None,
            };
            let names: Vec<String> = names.iter().map(|s| s.to_string()).collect();
            guarded(
                || {
                    let r1 = set_order(a.clone(), o, names.clone());
                    let r2 = set_order_clone(a, o, names);
                    let (s1, s2) = (fmt_num(&r1), fmt_num(&r2));
                    if s1 == s2 {
                        s1
                    } else {
                        format!("set_order/set_order_clone differ: {} vs {}", s1, s2)
                    }
                },
                "panic",
            )
        }
        ["tonum", i] => {
            // `Number::from` of the contained value, owned and borrowed: the container around exactly that value
            let a = st.vals.get(&i.parse().ok()?)?.clone();
            guarded(
                || {
                    let (x, y) = match &a {
                        Number::F64(f) => (Number::from(*f), Number::from(f)),
                        Number::Dual(d) => (Number::from(d.clone()), Number::from(d)),
                        Number::Dual2(d) => (Number::from(d.clone()), Number::from(d)),
                    };
                    let (s1, s2) = (fmt_num(&x), fmt_num(&y));
                    if s1 == s2 {
                        s1
                    } else {
                        "From variants differ".to_string()
                    }
                },
                "panic",
            )
        }
        ["conv", i, to] => {
            let a = st.vals.get(&i.parse().ok()?)?;
            guarded(
                || match *to {
                    "f" => {
                        let x: f64 = f64::from(a);
                        let y: f64 = f64::from(a.clone());
                        if x.to_bits() == y.to_bits() {
                            format!("F {}", hf(x))
                        } else {
                            "From variants differ".to_string()
                        }
                    }
                    "d" => {
                        let x = Dual::from(a);
                        let y = Dual::from(a.clone());
                        let (s1, s2) = (fmt_dual(&x), fmt_dual(&y));
                        if s1 == s2 {
                            s1
                        } else {
                            "From variants differ".to_string()
                        }
                    }
                    _ => {
                        let x = Dual2::from(a);
                        let y = Dual2::from(a.clone());
                        let (s1, s2) = (fmt_dual2(&x), fmt_dual2(&y));
                        if s1 == s2 {
                            s1
                        } else {
                            "From variants differ".to_string()
                        }
                    }
                },
                "panic",
            )
        }
        _ => return None,
    })
}

// ------------------------------------------------------------------------------------------
// generators

const POOL: [&str; 4] = ["x", "y", "z", "w"];

/// all ordered duplicate-free lists over the first `n` names of the pool
fn all_lists(n: usize) -> Vec<Vec<&'static str>> {
    let mut out: Vec<Vec<&'static str>> = vec![vec![]];
    let mut frontier: Vec<Vec<&'static str>> = vec![vec![]];
    for _ in 0..n {
        let mut next = Vec::new();
        for l in &frontier {
            for v in &POOL[..n] {
                if !l.contains(v) {
                    let mut m = l.clone();
                    m.push(v);
                    next.push(m);
                }
            }
        }
        out.extend(next.iter().cloned());
        frontier = next;
    }
    out
}

fn emit_dual<W: Write>(out: &mut W, r: &mut Rng, id: usize, names: &[&str], grp: usize, zero_some: bool) {
    write!(out, "dual {} {} {}", id, hf(r.dyadic()), names.len()).unwrap();
    for n in names {
        let c = if zero_some && r.chance(1, 4) { 0.0 } else { r.dyadic() };
        write!(out, " {} {}", n, hf(c)).unwrap();
    }
    writeln!(out, " {}", grp).unwrap();
}

fn emit_dual2<W: Write>(out: &mut W, r: &mut Rng, id: usize, names: &[&str], grp: usize, zero_some: bool) {
    write!(out, "dual2 {} {} {}", id, hf(r.dyadic()), names.len()).unwrap();
    for n in names {
        let c = if zero_some && r.chance(1, 4) { 0.0 } else { r.dyadic() };
        write!(out, " {} {}", n, hf(c)).unwrap();
    }
    let k = names.len();
    // symmetric half-Hessian
    let mut h = vec![0.0; k * k];
    for i in 0..k {
        for j in i..k {
            let v = if zero_some && r.chance(1, 4) { 0.0 } else { r.dyadic() };
            h[i * k + j] = v;
            h[j * k + i] = v;
        }
    }
    for v in h {
        write!(out, " {}", hf(v)).unwrap();
    }
    writeln!(out, " {}", grp).unwrap();
}

/// `new_from` / `try_new_from` lines: mostly valid, sometimes a repeated name, a missing or surplus coefficient,
/// a Hessian of the wrong size
fn emit_from<W: Write>(out: &mut W, r: &mut Rng, id: usize, other: usize, names: &[&str], second: bool) -> bool {
    let mode = if r.chance(1, 4) { "n" } else { "t" };
    let mut valid = true;
    let mut ns: Vec<&str> = names.to_vec();
    if !ns.is_empty() && r.chance(1, 10) {
        let dup = ns[0];
        ns.push(dup);
        valid = false;
    }
    let k = ns.len();
    write!(out, "{} {} {} {} {} {}", if second { "dual2from" } else { "dualfrom" }, id, other, mode, hf(r.dyadic()), k).unwrap();
    for n in &ns {
        write!(out, " {} {}", n, hf(if r.chance(1, 4) { 0.0 } else { r.dyadic() })).unwrap();
    }
    if second {
        let nh = match r.below(8) {
            0 => 0,
            1 => k * k + 1,
            2 if k > 0 => k * k - 1,
            _ => k * k,
        };
        if nh != 0 && nh != k * k {
            valid = false;
        }
        let mut h = vec![0.0; k * k];
        for i in 0..k {
            for j in i..k {
                let v = r.dyadic();
                h[i * k + j] = v;
                h[j * k + i] = v;
            }
        }
        for i in 0..nh {
            write!(out, " {}", hf(if i < k * k { h[i] } else { 1.0 })).unwrap();
        }
    } else if r.chance(1, 10) {
        write!(out, " {}", hf(r.dyadic())).unwrap(); // surplus coefficient
        valid = false;
    }
    writeln!(out).unwrap();
    // `new_from` takes names only: always a value
    valid || mode == "n"
}

const BINOPS: [&str; 5] = ["add", "sub", "mul", "div", "rem"];

pub fn gen_c03<W: Write>(out: &mut W, thorough: bool, seed: u64) {
    let mut r = Rng::new(seed ^ 0xC03);
    let lists = all_lists(if thorough { 4 } else { 3 });
    let mut id = 1usize;
    let reps = if thorough { 1 } else { 2 };
    for _ in 0..reps {
        for (ia, la) in lists.iter().enumerate() {
            for (ib, lb) in lists.iter().enumerate() {
                if thorough && (ia * 31 + ib * 17 + seed as usize) % 3 != 0 {
                    continue;
                }
                for kind in 0..2 {
                    // equal lists: once with a shared Arc, once without
                    let variants: &[usize] = if la == lb { &[0, 7] } else { &[0] };
                    for &g in variants {
                        let (a, b) = (id, id + 1);
                        id += 2;
                        if kind == 0 {
                            emit_dual(out, &mut r, a, la, g, true);
                            emit_dual(out, &mut r, b, lb, g, true);
                        } else {
                            emit_dual2(out, &mut r, a, la, g, true);
                            emit_dual2(out, &mut r, b, lb, g, true);
                        }
                        for op in ["add", "sub", "mul", "rem"] {
                            writeln!(out, "bin {} {} {}", op, a, b).unwrap();
                        }
                        writeln!(out, "cmp eq {} {}", a, b).unwrap();
                        writeln!(out, "cmp ne {} {}", a, b).unwrap();
                        // constructors re-indexed onto b's list: names of la, projected name by name
                        if emit_from(out, &mut r, id + 100000, b, la, kind == 1 || ia % 2 == 1) {
                            // the result shares the other number's list: the pointer-equal arm of +
                            writeln!(out, "bin add {} {}", id + 100000, b).unwrap();
                        }
                        writeln!(out, "reset").unwrap();
                    }
                }
            }
        }
    }
    // equality between numbers that are equal by name: a and b are two layouts of the same number,
    // each with its own extra zero-derivative variables (so that every relationship - equal lists,
    // superset, subset, and lists of which neither contains the other - occurs with equal numbers)
    let n_eq = if thorough { 20000 } else { 2000 };
    for _ in 0..n_eq {
        // one case in six: the number has no variable of its own (a constant), so that one layout can be the EMPTY list
        let base = if r.chance(1, 6) { Vec::new() } else { r.pick(&lists).clone() };
        let k = base.len();
        let real = r.dyadic();
        let coefs: Vec<f64> = base.iter().map(|_| if r.chance(1, 5) { 0.0 } else { r.dyadic() }).collect();
        let hess: Vec<f64> = (0..k * k).map(|_| r.dyadic()).collect();
        let hsym = |i: usize, j: usize| hess[i.min(j) * k + i.max(j)];
        let mut layouts: Vec<Vec<&str>> = Vec::new();
        for _ in 0..2 {
            let mut l: Vec<&str> = base.clone();
            // one layout in three carries no extra variable at all
            let bare = r.chance(1, 3);
            for v in POOL.iter() {
                if !bare && !base.contains(v) && r.chance(1, 2) {
                    l.push(v);
                }
            }
            r.shuffle(&mut l);
            layouts.push(l);
        }
        // one case in four: the SAME list on both sides, stored once and shared (the pointer-equal fast paths)
        let shared = r.chance(1, 4);
        if shared {
            layouts[1] = layouts[0].clone();
        }
        let perturb = r.chance(1, 3);
        let which = r.below((layouts[1].len() + 1) as u64) as usize;
        let hperturb = r.chance(1, 2);
        for kind in 0..2 {
            let (a, b) = (id, id + 1);
            id += 2;
            let tag = if kind == 0 { "dual" } else { "dual2" };
            for (side, full) in layouts.iter().enumerate() {
                write!(out, "{} {} {} {}", tag, if side == 0 { a } else { b }, hf(real), full.len()).unwrap();
                for (pos, n) in full.iter().enumerate() {
                    let mut c = match base.iter().position(|x| x == n) {
                        Some(i) => coefs[i],
                        None => 0.0,
                    };
                    if side == 1 && perturb && !(kind == 1 && hperturb) && pos == which {
                        c += 1.0;
                    }
                    write!(out, " {} {}", n, hf(c)).unwrap();
                }
                if kind == 1 {
                    for (pi, n) in full.iter().enumerate() {
                        for (pj, m) in full.iter().enumerate() {
                            let mut v = match (base.iter().position(|x| x == n), base.iter().position(|x| x == m)) {
                                (Some(i), Some(j)) => hsym(i, j),
                                _ => 0.0,
                            };
                            // perturb one symmetric pair of the Hessian only
                            if side == 1 && perturb && hperturb && !full.is_empty() {
                                let w = which % full.len();
                                if (pi == w && pj == 0) || (pi == 0 && pj == w) {
                                    v += 0.5;
                                }
                            }
                            write!(out, " {}", hf(v)).unwrap();
                        }
                    }
                }
                writeln!(out, " {}", if shared { 9 } else { 0 }).unwrap();
            }
            writeln!(out, "cmp eq {} {}", a, b).unwrap();
            writeln!(out, "cmp eq {} {}", b, a).unwrap();
            writeln!(out, "cmp ne {} {}", a, b).unwrap();
            writeln!(out, "bin sub {} {}", a, b).unwrap();
            writeln!(out, "reset").unwrap();
        }
    }
}

pub fn gen_c17<W: Write>(out: &mut W, thorough: bool, seed: u64) {
    let mut r = Rng::new(seed ^ 0xC17);
    let lists = all_lists(4);
    let mut id = 1usize;
    // every stored order against every requested order (pool of 4; quick: stored orders sampled)
    for (is, stored) in lists.iter().enumerate() {
        if !thorough && (is + seed as usize) % 4 != 0 {
            continue;
        }
        let (d1, d2) = (id, id + 1);
        id += 2;
        emit_dual(out, &mut r, d1, stored, 0, true);
        emit_dual2(out, &mut r, d2, stored, 0, true);
        for req in &lists {
            let names = req.join(" ");
            writeln!(out, "grad1 {} {}", d1, names).unwrap();
            writeln!(out, "grad1 {} {}", d2, names).unwrap();
            writeln!(out, "grad2 {} {}", d2, names).unwrap();
            writeln!(out, "manifold {} {}", d2, names).unwrap();
        }
        // names outside the pool and duplicates (malformed stream: outside the quantifier, still compared)
        writeln!(out, "grad1 {} q x q", d1).unwrap();
        writeln!(out, "grad2 {} y q y", d2).unwrap();
        writeln!(out, "reset").unwrap();
    }
    // product rule on manifolds
    let n_pairs = if thorough { 100000 } else { 3000 };
    for _ in 0..n_pairs {
        let la = r.pick(&lists).clone();
        let lb = r.pick(&lists).clone();
        let (a, b) = (id, id + 1);
        id += 2;
        emit_dual2(out, &mut r, a, &la, 0, false);
        emit_dual2(out, &mut r, b, &lb, 0, false);
        let req = r.pick(&lists).clone();
        if req.is_empty() {
            writeln!(out, "reset").unwrap();
            continue;
        }
        writeln!(out, "manifoldprod {} {} {}", a, b, req.join(" ")).unwrap();
        writeln!(out, "reset").unwrap();
    }
}

fn emit_value_set<W: Write>(out: &mut W, r: &mut Rng, base: usize) -> Vec<(usize, char)> {
    // a set of values per kind; ids base..; returns (id, kind)
    let mut v = Vec::new();
    let mut id = base;
    for x in [0.0, -0.0, 1.0, -1.5, 2.25, 1e-3, -7.0, 64.0] {
        writeln!(out, "flt {} {}", id, hf(x)).unwrap();
        v.push((id, 'f'));
        id += 1;
    }
    let lists = all_lists(3);
    let shared = r.pick(&lists).clone();
    for k in 0..6 {
        // the first two share storage, hence necessarily the same list
        let l = if k < 2 { shared.clone() } else { r.pick(&lists).clone() };
        emit_dual(out, r, id, &l, if k < 2 { 5 } else { 0 }, true);
        v.push((id, 'd'));
        id += 1;
    }
    for k in 0..6 {
        let l = if k < 2 { shared.clone() } else { r.pick(&lists).clone() };
        emit_dual2(out, r, id, &l, if k < 2 { 6 } else { 0 }, true);
        v.push((id, 'D'));
        id += 1;
    }
    v
}

pub fn gen_c18<W: Write>(out: &mut W, thorough: bool, seed: u64) {
    let mut r = Rng::new(seed ^ 0xC18);
    let rounds = if thorough { 30 } else { 3 };
    for _ in 0..rounds {
        let vals = emit_value_set(out, &mut r, 1);
        for (i, k) in &vals {
            for (j, _) in &vals {
                for op in BINOPS {
                    writeln!(out, "numop {} {} {}", op, i, j).unwrap();
                }
                for op in ["eq", "ne", "lt", "le", "gt", "ge"] {
                    writeln!(out, "cmp {} {} {}", op, i, j).unwrap();
                    writeln!(out, "ncmp {} {} {}", op, i, j).unwrap();
                }
            }
            for x in [0.5, -2.0, 3.0] {
                for op in BINOPS {
                    writeln!(out, "numopf {} {} {}", op, i, hf(x)).unwrap();
                    writeln!(out, "fnumop {} {} {}", op, hf(x), i).unwrap();
                }
                for op in ["eq", "lt", "le", "gt", "ge"] {
                    writeln!(out, "cmpf {} {} {}", op, i, hf(x)).unwrap();
                    writeln!(out, "fcmp {} {} {}", op, hf(x), i).unwrap();
                    writeln!(out, "ncmpf {} {} {}", op, i, hf(x)).unwrap();
                    writeln!(out, "fncmp {} {} {}", op, hf(x), i).unwrap();
                }
            }
            for ord in 0..3 {
                for names in ["", "x", "y x", "a b c", "x x y"] {
                    writeln!(out, "setord {} {} {}", i, ord, names).unwrap();
                }
            }
            for to in ["f", "d", "D"] {
                writeln!(out, "conv {} {}", i, to).unwrap();
            }
            writeln!(out, "tonum {}", i).unwrap();
            writeln!(out, "powc {} {}", i, hf(2.0)).unwrap();
            writeln!(out, "npowc {} {}", i, hf(2.0)).unwrap();
            writeln!(out, "npowc {} {}", i, hf(3.0)).unwrap();
            for u in ["neg", "negref", "abs", "nneg", "nnegref"] {
                writeln!(out, "un {} {}", u, i).unwrap();
            }
            if *k != 'f' {
                writeln!(out, "un nsignum {}", i).unwrap();
            }
        }
        writeln!(out, "reset").unwrap();
    }
}

pub fn gen_c19<W: Write>(out: &mut W, thorough: bool, seed: u64) {
    let mut r = Rng::new(seed ^ 0xC19);
    let lists = all_lists(3);
    let n = if thorough { 100000 } else { 2500 };
    /* comparisons only, at the values where IEEE order is not a total order: signed zeros (equal, neither below
       the other) and NaN (unordered: every comparison false except `ne`), infinities, on either side and in
       either container; all 7 x 7 value pairs for both number types */
    let special = [0.0, -0.0, f64::NAN, f64::INFINITY, f64::NEG_INFINITY, 1.5, -1.5];
    for kind in 0..2 {
        let ctor = if kind == 0 { "dual" } else { "dual2" };
        for (i, a) in special.iter().enumerate() {
            for (j, b) in special.iter().enumerate() {
                // with and without variables (the Hessian of a one-variable Dual2 is one entry)
                let with_vars = (i + j) % 2 == 0;
                for (id, v) in [(1, a), (2, b)] {
                    if with_vars {
                        let h = if kind == 1 { format!(" {}", hf(0.25)) } else { String::new() };
                        writeln!(out, "{} {} {} 1 x {}{} 0", ctor, id, hf(*v), hf(r.dyadic()), h).unwrap();
                    } else {
                        writeln!(out, "{} {} {} 0 0", ctor, id, hf(*v)).unwrap();
                    }
                }
                for op in ["eq", "ne", "lt", "le", "gt", "ge"] {
                    writeln!(out, "cmp {} 1 2", op).unwrap();
                    writeln!(out, "ncmp {} 1 2", op).unwrap();
                }
                for op in ["eq", "lt", "le", "gt", "ge"] {
                    writeln!(out, "cmpf {} 1 {}", op, hf(*b)).unwrap();
                    writeln!(out, "fcmp {} {} 2", op, hf(*a)).unwrap();
                    writeln!(out, "ncmpf {} 1 {}", op, hf(*b)).unwrap();
                    writeln!(out, "fncmp {} {} 2", op, hf(*a)).unwrap();
                }
                // the sign tests follow the sign BIT (-0.0 is negative); NaN carries no meaningful sign
                if !a.is_nan() {
                    writeln!(out, "sign 1").unwrap();
                }
                if !b.is_nan() {
                    writeln!(out, "sign 2").unwrap();
                }
                writeln!(out, "reset").unwrap();
            }
        }
    }
    for _ in 0..n {
        let kind = r.below(2);
        let la = r.pick(&lists).clone();
        let lb = r.pick(&lists).clone();
        let g = if la == lb && r.chance(1, 2) { 3 } else { 0 };
        if kind == 0 {
            emit_dual(out, &mut r, 1, &la, g, true);
            emit_dual(out, &mut r, 2, &lb, g, true);
        } else {
            emit_dual2(out, &mut r, 1, &la, g, true);
            emit_dual2(out, &mut r, 2, &lb, g, true);
        }
        let x = r.dyadic();
        for op in ["eq", "ne", "lt", "le", "gt", "ge"] {
            writeln!(out, "cmp {} 1 2", op).unwrap();
        }
        for op in ["eq", "lt", "le", "gt", "ge"] {
            writeln!(out, "cmpf {} 1 {}", op, hf(x)).unwrap();
            writeln!(out, "fcmp {} {} 2", op, hf(x)).unwrap();
            // through the Number container, at the operands' own values too (ties) and on both sides
            writeln!(out, "ncmpf {} 1 {}", op, hf(x)).unwrap();
            writeln!(out, "fncmp {} {} 2", op, hf(x)).unwrap();
            writeln!(out, "fncmp {} {} 1", op, hf(x)).unwrap();
        }
        for op in ["eq", "ne", "lt", "le", "gt", "ge"] {
            writeln!(out, "ncmp {} 1 2", op).unwrap();
        }
        writeln!(out, "un abs 1").unwrap();
        writeln!(out, "un abs 2").unwrap();
        writeln!(out, "un signum 1").unwrap();
        writeln!(out, "bin rem 1 2").unwrap();
        writeln!(out, "binf rem 1 {}", hf(x)).unwrap();
        writeln!(out, "fbin rem {} 2", hf(x)).unwrap();
        // neutral elements
        if kind == 0 {
            writeln!(out, "dual 3 {} 0 0", hf(0.0)).unwrap();
            writeln!(out, "dual 4 {} 0 0", hf(1.0)).unwrap();
        } else {
            writeln!(out, "dual2 3 {} 0 0", hf(0.0)).unwrap();
            writeln!(out, "dual2 4 {} 0 0", hf(1.0)).unwrap();
        }
        writeln!(out, "bin add 3 1").unwrap();
        writeln!(out, "bin add 1 3").unwrap();
        writeln!(out, "bin mul 4 1").unwrap();
        writeln!(out, "bin mul 1 4").unwrap();
        // the library's own zero and one elements, typed and through the Number container; its zero / one tests
        for w in ["za", "az", "om", "mo", "nza", "naz", "nom", "nmo"] {
            writeln!(out, "neut {} 1", w).unwrap();
        }
        for i in [1, 2, 3, 4] {
            writeln!(out, "sign {}", i).unwrap();
            writeln!(out, "iszero {}", i).unwrap();
            writeln!(out, "isone {}", i).unwrap();
        }
        // sums of length 0..8
        let len = r.below(9) as usize;
        let mut ids = Vec::new();
        for k in 0..len {
            let l = r.pick(&lists).clone();
            if kind == 0 {
                emit_dual(out, &mut r, 10 + k, &l, 0, true);
            } else {
                emit_dual2(out, &mut r, 10 + k, &l, 0, true);
            }
            ids.push((10 + k).to_string());
        }
        writeln!(out, "sum {} {}", if kind == 0 { "1" } else { "2" }, ids.join(" ")).unwrap();
        writeln!(out, "sum n {}", ids.join(" ")).unwrap();
        writeln!(out, "reset").unwrap();
    }
}

// ------------------------------------------------------------------------------------------
// C01 / C02: random formulas inside their differentiable domain

const POOL6: [&str; 6] = ["x", "y", "z", "u", "v", "w"];

struct Leaf {
    tok: String,
    val: f64,
}

/// returns (prefix tokens, value of the plain f64 evaluation)
fn gen_tree(r: &mut Rng, depth: usize, leaves: &[Leaf]) -> (String, f64) {
    if depth == 0 || r.chance(1, 6) {
        if r.chance(1, 6) {
            let c = if r.chance(1, 2) { r.dyadic() } else { r.logu(1e-2, 1e2) * if r.chance(1, 2) { -1.0 } else { 1.0 } };
            let c = if c == 0.0 { 1.5 } else { c };
            return (format!("K{}", hf(c)), c);
        }
        let l = r.pick(leaves);
        return (l.tok.clone(), l.val);
    }
    let rescale = |s: String, v: f64| -> (String, f64) {
        if v != 0.0 && (v.abs() > 1e4 || v.abs() < 1e-4) {
            let c = 1.0 / v.abs();
            // a power of two keeps the scaling exact
            let c = (2f64).powi(c.log2().round() as i32);
            (format!("* K{} {}", hf(c), s), c * v)
        } else {
            (s, v)
        }
    };
    match r.below(14) {
        0 | 1 => {
            let (a, va) = gen_tree(r, depth - 1, leaves);
            let (b, vb) = gen_tree(r, depth - 1, leaves);
            rescale(format!("+ {} {}", a, b), va + vb)
        }
        2 => {
            let (a, va) = gen_tree(r, depth - 1, leaves);
            let (b, vb) = gen_tree(r, depth - 1, leaves);
            rescale(format!("- {} {}", a, b), va - vb)
        }
        3 | 4 | 5 => {
            let (a, va) = gen_tree(r, depth - 1, leaves);
            let (b, vb) = gen_tree(r, depth - 1, leaves);
            rescale(format!("* {} {}", a, b), va * vb)
        }
        6 | 7 => {
            let (a, va) = gen_tree(r, depth - 1, leaves);
            let (b, vb) = gen_tree(r, depth - 1, leaves);
            if vb.abs() >= 1e-2 {
                rescale(format!("/ {} {}", a, b), va / vb)
            } else {
                rescale(format!("+ {} {}", a, b), va + vb)
            }
        }
        8 => {
            let (a, va) = gen_tree(r, depth - 1, leaves);
            let t = if r.chance(1, 2) { "n" } else { "N" };
            (format!("{} {}", t, a), -va)
        }
        9 => {
            let (a, va) = gen_tree(r, depth - 1, leaves);
            let p = if va > 1e-3 {
                *r.pick(&[2.0, 3.0, -1.0, -2.0, 0.5, 1.5, -0.5, 1.0])
            } else if va.abs() >= 1e-2 {
                *r.pick(&[2.0, 3.0, -1.0, -2.0, 1.0])
            } else {
                // near zero only exponents whose first AND second derivative formulas are finite at 0
                *r.pick(&[2.0, 3.0])
            };
            rescale(format!("p{} {}", hf(p), a), va.powf(p))
        }
        10 => {
            let (a, va) = gen_tree(r, depth - 1, leaves);
            if va.abs() < 5.0 {
                rescale(format!("e {}", a), va.exp())
            } else {
                (format!("N {}", a), -va)
            }
        }
        11 => {
            let (a, va) = gen_tree(r, depth - 1, leaves);
            if va > 1e-3 {
                rescale(format!("l {}", a), va.ln())
            } else {
                let c = va.abs() + 1.0;
                rescale(format!("l + K{} {}", hf(c), a), (va + c).ln())
            }
        }
        12 => {
            let (a, va) = gen_tree(r, depth - 1, leaves);
            if va.abs() < 3.0 && r.chance(1, 2) {
                // nicdf(ncdf(x)) = x up to rounding
                (format!("q c {}", a), va)
            } else if va.abs() < 6.0 {
                // bookkeeping with the library's own f64 Φ
                rescale(format!("c {}", a), MathFuncs::norm_cdf(&va))
            } else {
                (format!("N {}", a), -va)
            }
        }
        _ => {
            let (a, va) = gen_tree(r, depth - 1, leaves);
            if va.abs() > 1e-3 {
                (format!("a {}", a), va.abs())
            } else {
                (format!("n {}", a), -va)
            }
        }
    }
}

fn gen_formulas<W: Write>(out: &mut W, thorough: bool, seed: u64, second: bool) {
    let mut r = Rng::new(seed ^ if second { 0xC02 } else { 0xC01 });
    let n = if second {
        if thorough { 100000 } else { 2000 }
    } else if thorough {
        200000
    } else {
        3000
    };
    for _ in 0..n {
        let n_leaves = r.range(1, 5) as usize;
        let mut leaves = Vec::new();
        let mut shared: Option<Vec<&str>> = None;
        for i in 0..n_leaves {
            let id = i + 1;
            let val = r.logu(1e-2, 1e2) * if r.chance(1, 3) { -1.0 } else { 1.0 };
            if r.chance(1, 7) {
                writeln!(out, "flt {} {}", id, hf(val)).unwrap();
            } else {
                // some leaves share one variable list (and its storage)
                let use_shared = shared.is_some() && r.chance(1, 3);
                let names: Vec<&str> = if use_shared {
                    shared.clone().unwrap()
                } else {
                    let k = r.range(0, 4) as usize;
                    let mut p: Vec<&str> = POOL6.to_vec();
                    r.shuffle(&mut p);
                    p.truncate(k);
                    p
                };
                if shared.is_none() && r.chance(1, 2) {
                    shared = Some(names.clone());
                }
                let grp = if use_shared || Some(&names) == shared.as_ref() { 9 } else { 0 };
                let tag = if second { "dual2" } else { "dual" };
                write!(out, "{} {} {} {}", tag, id, hf(val), names.len()).unwrap();
                for nm in &names {
                    let c = ((r.unit() * 4.0 - 2.0) * 64.0).round() / 64.0;
                    write!(out, " {} {}", nm, hf(c)).unwrap();
                }
                if second {
                    let k = names.len();
                    let mut h = vec![0.0; k * k];
                    for a in 0..k {
                        for b in a..k {
                            let v = ((r.unit() * 2.0 - 1.0) * 64.0).round() / 64.0;
                            h[a * k + b] = v;
                            h[b * k + a] = v;
                        }
                    }
                    for v in h {
                        write!(out, " {}", hf(v)).unwrap();
                    }
                }
                writeln!(out, " {}", grp).unwrap();
            }
            leaves.push(Leaf { tok: format!("L{}", id), val });
        }
        let depth = r.range(1, 6) as usize;
        let (expr, _) = gen_tree(&mut r, depth, &leaves);
        writeln!(out, "eval {}", expr).unwrap();
        if second {
            writeln!(out, "evalgrad2 {}", expr).unwrap();
        }
        writeln!(out, "reset").unwrap();
    }
}

pub fn gen_c01<W: Write>(out: &mut W, thorough: bool, seed: u64) {
    gen_formulas(out, thorough, seed, false);
    // a power with base exactly 0 and an exponent 0, 1, 2, 3 (x^p is smooth there): the derivative coefficient
    // p x^(p-1) must not become 0 * inf (repaired defect, known_findings.json)
    writeln!(out, "dual 1 {} 2 x {} y {} 0", hf(0.0), hf(1.0), hf(-2.5)).unwrap();
    for p in [0.0, 1.0, 2.0, 3.0] {
        writeln!(out, "eval p{} L1", hf(p)).unwrap();
        writeln!(out, "eval + Kh3ff8000000000000 p{} L1", hf(p)).unwrap();
    }
    writeln!(out, "reset").unwrap();
    // far tails of the normal cdf: the density is tiny but not zero, and log(cdf) brings it back to order one
    for (i, x) in [-12.0, -10.0, -9.0, -8.5, -8.3125, -8.0, 8.0, 8.3125, 8.5, 9.0].iter().enumerate() {
        writeln!(out, "dual {} {} 2 x {} y {} 0", 10 + i, hf(*x), hf(1.0), hf(-2.5)).unwrap();
        writeln!(out, "eval c L{}", 10 + i).unwrap();
        writeln!(out, "eval l c L{}", 10 + i).unwrap();
        writeln!(out, "eval / L{} c L{}", 10 + i, 10 + i).unwrap();
    }
    writeln!(out, "reset").unwrap();
}

pub fn gen_c02<W: Write>(out: &mut W, thorough: bool, seed: u64) {
    gen_formulas(out, thorough, seed, true);
    // probes at a power with base exactly 0 and exponent 0, 1, 2, 3 (x^p is smooth there): repaired defect
    writeln!(out, "dual2 1 {} 1 x {} {} 0", hf(0.0), hf(1.0), hf(0.0)).unwrap();
    for p in [0.0, 1.0, 2.0, 3.0] {
        writeln!(out, "evalgrad2 p{} L1", hf(p)).unwrap();
    }
    writeln!(out, "dual2 2 {} 2 x {} y {} {} {} {} {} 0", hf(0.0), hf(1.0), hf(-2.5), hf(0.5), hf(0.25), hf(0.25), hf(-1.0)).unwrap();
    for p in [0.0, 1.0, 2.0, 3.0] {
        writeln!(out, "evalgrad2 p{} L2", hf(p)).unwrap();
    }
    writeln!(out, "reset").unwrap();
    // far tails of the normal cdf (see gen_c01)
    for (i, x) in [-12.0, -10.0, -9.0, -8.5, -8.3125, -8.0, 8.0, 8.3125, 8.5, 9.0].iter().enumerate() {
        writeln!(out, "dual2 {} {} 1 x {} {} 0", 10 + i, hf(*x), hf(1.0), hf(0.25)).unwrap();
        writeln!(out, "evalgrad2 c L{}", 10 + i).unwrap();
        writeln!(out, "evalgrad2 l c L{}", 10 + i).unwrap();
    }
    writeln!(out, "reset").unwrap();
}
