//! Curve operations (C11, C12) against the real code, through the `verif_hooks` wrappers.
use crate::dates::day;
use crate::duals::{fmt_num, hf, pf, DualState};
use crate::rng::Rng;
use chrono::DateTime;
use indexmap::IndexMap;
use rateslib::calendars::{CalType, Convention, Modifier, NamedCal};
use rateslib::dual::{ADOrder, Number};
use rateslib::curves::{
    CurveDF, FlatBackwardInterpolator, FlatForwardInterpolator, LinearInterpolator, LinearZeroRateInterpolator,
    LogLinearInterpolator, Nodes,
};
use rateslib::dual::{Dual, Dual2};
use rateslib::json::JSON;
use rateslib::verif_hooks::{index_left_f64, CurveHandle};
use std::collections::HashMap;
use std::io::Write;
use std::panic::{catch_unwind, AssertUnwindSafe};

/// A curve built through the crate's public `CurveDF` API directly (no `verif_hooks` wrapper in between): the
/// constructor sorts the nodes itself and `JSON::from_json` is the per-type entry point.
pub enum Direct {
    Lin(CurveDF<LinearInterpolator, NamedCal>),
    Log(CurveDF<LogLinearInterpolator, NamedCal>),
    Lzr(CurveDF<LinearZeroRateInterpolator, NamedCal>),
    Ff(CurveDF<FlatForwardInterpolator, NamedCal>),
    Fb(CurveDF<FlatBackwardInterpolator, NamedCal>),
}

macro_rules! direct {
    ($d:expr, $c:ident => $e:expr) => {
        match $d {
            Direct::Lin($c) => $e,
            Direct::Log($c) => $e,
            Direct::Lzr($c) => $e,
            Direct::Ff($c) => $e,
            Direct::Fb($c) => $e,
        }
    };
}

/// the node table of a serialised `CurveDF`, in document order
#[derive(serde::Deserialize)]
struct MirrorDoc {
    nodes: MirrorNodes,
}
#[derive(serde::Deserialize)]
enum MirrorNodes {
    F64(IndexMap<i64, f64>),
    Dual(IndexMap<i64, Dual>),
    Dual2(IndexMap<i64, Dual2>),
}

impl Direct {
    fn to_json(&self) -> Result<String, String> {
        direct!(self, c => c.to_json().map_err(|e| e.to_string()))
    }
    /// to_json, then the type's own `from_json`
    fn json_round_trip(&self) -> Result<Direct, String> {
        let j = self.to_json()?;
        Ok(match self {
            Direct::Lin(_) => Direct::Lin(CurveDF::from_json(&j).map_err(|e| e.to_string())?),
            Direct::Log(_) => Direct::Log(CurveDF::from_json(&j).map_err(|e| e.to_string())?),
            Direct::Lzr(_) => Direct::Lzr(CurveDF::from_json(&j).map_err(|e| e.to_string())?),
            Direct::Ff(_) => Direct::Ff(CurveDF::from_json(&j).map_err(|e| e.to_string())?),
            Direct::Fb(_) => Direct::Fb(CurveDF::from_json(&j).map_err(|e| e.to_string())?),
        })
    }
    fn nodes(&self) -> Result<Vec<(i64, Number)>, String> {
        let j = self.to_json()?;
        let m: MirrorDoc = serde_json::from_str(&j).map_err(|e| e.to_string())?;
        Ok(match m.nodes {
            MirrorNodes::F64(m) => m.into_iter().map(|(k, v)| (k, Number::F64(v))).collect(),
            MirrorNodes::Dual(m) => m.into_iter().map(|(k, v)| (k, Number::Dual(v))).collect(),
            MirrorNodes::Dual2(m) => m.into_iter().map(|(k, v)| (k, Number::Dual2(v))).collect(),
        })
    }
}

#[derive(Default)]
pub struct CurveState {
    pub curves: HashMap<usize, CurveHandle>,
    pub direct: HashMap<usize, Direct>,
}

fn order(s: &str) -> Option<ADOrder> {
    Some(match s {
        "0" => ADOrder::Zero,
        "1" => ADOrder::One,
        "2" => ADOrder::Two,
        _ => return None,
    })
}

fn guarded<F: FnOnce() -> String>(f: F) -> String {
    match catch_unwind(AssertUnwindSafe(f)) {
        Ok(s) => s,
        Err(_) => "panic".to_string(),
    }
}

pub fn step(ds: &DualState, st: &mut CurveState, t: &[&str]) -> Option<String> {
    Some(match t {
        ["curve", id, interp, ad, idstr, base, n, nodes @ ..] => {
            let id: usize = id.parse().ok()?;
            let ad = order(ad)?;
            let base = if *base == "-" { None } else { Some(pf(base)?) };
            let n: usize = n.parse().ok()?;
            if nodes.len() != 2 * n {
                return None;
            }
            let mut map: IndexMap<chrono::NaiveDateTime, Number> = IndexMap::new();
            for i in 0..n {
                let d = day(nodes[2 * i].parse().ok()?);
                let v = nodes[2 * i + 1];
                let num = if let Some(x) = v.strip_prefix('F') {
                    Number::F64(pf(x)?)
                } else if let Some(h) = v.strip_prefix('H') {
                    ds.vals.get(&h.parse().ok()?)?.clone()
                } else {
                    return None;
                };
                map.insert(d, num);
            }
            let idstr = idstr.to_string();
            let interp = interp.to_string();
            let r = catch_unwind(AssertUnwindSafe(|| {
                CurveHandle::new(
                    map,
                    &interp,
                    ad,
                    idstr,
                    Convention::Act365F,
                    Modifier::ModF,
                    CalType::NamedCal(NamedCal::try_new("all").unwrap()),
                    base,
                )
            }));
            match r {
                Ok(Ok(c)) => {
                    st.curves.insert(id, c);
                    "ok".to_string()
                }
                Ok(Err(_)) => "err".to_string(),
                Err(_) => "panic".to_string(),
            }
        }
        ["curvedf", id, interp, idstr, base, n, nodes @ ..] => {
            // the public constructor, with float nodes in the order given
            let id: usize = id.parse().ok()?;
            let base = if *base == "-" { None } else { Some(pf(base)?) };
            let n: usize = n.parse().ok()?;
            if nodes.len() != 2 * n {
                return None;
            }
            let mut map: IndexMap<chrono::NaiveDateTime, f64> = IndexMap::new();
            for i in 0..n {
                let d = day(nodes[2 * i].parse().ok()?);
                map.insert(d, pf(nodes[2 * i + 1].strip_prefix('F')?)?);
            }
            let cal = NamedCal::try_new("all").unwrap();
            let (cv, md) = (Convention::Act365F, Modifier::ModF);
            let interp = interp.to_string();
            let r = catch_unwind(AssertUnwindSafe(|| {
                let nodes = Nodes::F64(map);
                Ok::<Direct, String>(match interp.as_str() {
                    "linear" => Direct::Lin(
                        CurveDF::try_new(nodes, LinearInterpolator::new(), idstr, cv, md, base, cal).map_err(|_| "e")?,
                    ),
                    "log_linear" => Direct::Log(
                        CurveDF::try_new(nodes, LogLinearInterpolator::new(), idstr, cv, md, base, cal).map_err(|_| "e")?,
                    ),
                    "linear_zero_rate" => Direct::Lzr(
                        CurveDF::try_new(nodes, LinearZeroRateInterpolator::new(), idstr, cv, md, base, cal)
                            .map_err(|_| "e")?,
                    ),
                    "flat_forward" => Direct::Ff(
                        CurveDF::try_new(nodes, FlatForwardInterpolator::new(), idstr, cv, md, base, cal).map_err(|_| "e")?,
                    ),
                    "flat_backward" => Direct::Fb(
                        CurveDF::try_new(nodes, FlatBackwardInterpolator::new(), idstr, cv, md, base, cal).map_err(|_| "e")?,
                    ),
                    _ => return Err("unknown".to_string()),
                })
            }));
            match r {
                Ok(Ok(c)) => {
                    st.direct.insert(id, c);
                    "ok".to_string()
                }
                Ok(Err(_)) => "err".to_string(),
                Err(_) => "panic".to_string(),
            }
        }
        ["cvjson", id] => {
            // replace the curve by its own JSON round trip (the type's `to_json` / `from_json`)
            let id: usize = id.parse().ok()?;
            let c = st.direct.get(&id)?;
            match catch_unwind(AssertUnwindSafe(|| c.json_round_trip())) {
                Ok(Ok(c2)) => {
                    st.direct.insert(id, c2);
                    "ok".to_string()
                }
                Ok(Err(_)) => "err".to_string(),
                Err(_) => "panic".to_string(),
            }
        }
        ["cvvalue", id, d] => {
            let id: usize = id.parse().ok()?;
            let d = day(d.parse().ok()?);
            if let Some(c) = st.direct.get(&id) {
                return Some(guarded(|| direct!(c, c => fmt_num(&c.interpolated_value(&d)))));
            }
            let c = st.curves.get(&id)?;
            guarded(|| fmt_num(&c.value(d)))
        }
        ["cvindex", id, ts] => {
            let id: usize = id.parse().ok()?;
            let ts: i64 = ts.parse().ok()?;
            if let Some(c) = st.direct.get(&id) {
                return Some(guarded(|| direct!(c, c => c.node_index(ts).to_string())));
            }
            let c = st.curves.get(&id)?;
            guarded(|| c.node_index(ts).to_string())
        }
        ["cvorder", id, k] => {
            let id: usize = id.parse().ok()?;
            let k = order(k)?;
            if let Some(c) = st.direct.get_mut(&id) {
                return Some(guarded(|| match direct!(c, c => c.set_ad_order(k)) {
                    Ok(()) => "ok".to_string(),
                    Err(_) => "err".to_string(),
                }));
            }
            let c = st.curves.get_mut(&id)?;
            guarded(|| {
                c.set_ad_order(k);
                "ok".to_string()
            })
        }
        ["cvidxval", id, d] => {
            let id: usize = id.parse().ok()?;
            let d = day(d.parse().ok()?);
            if let Some(c) = st.direct.get(&id) {
                return Some(guarded(|| match direct!(c, c => c.index_value(&d)) {
                    Ok(v) => fmt_num(&v),
                    Err(_) => "err".to_string(),
                }));
            }
            let c = st.curves.get(&id)?;
            guarded(|| match c.index_value(d) {
                Ok(v) => fmt_num(&v),
                Err(_) => "err".to_string(),
            })
        }
        ["cvnodes", id] => {
            let id: usize = id.parse().ok()?;
            if let Some(c) = st.direct.get(&id) {
                return Some(guarded(|| match c.nodes() {
                    Ok(nodes) => {
                        let parts: Vec<String> =
                            nodes.iter().map(|(k, v)| format!("{} {}", k.div_euclid(86400), fmt_num(v))).collect();
                        format!("N {} ; {}", nodes.len(), parts.join(" ; "))
                    }
                    Err(_) => "err".to_string(),
                }));
            }
            let c = st.curves.get(&id)?;
            guarded(|| {
                let nodes = c.nodes();
                let parts: Vec<String> = nodes
                    .iter()
                    .map(|(k, v)| format!("{} {}", crate::dates::num(k), fmt_num(v)))
                    .collect();
                format!("N {} ; {}", nodes.len(), parts.join(" ; "))
            })
        }
        ["cvad", id] => {
            let id: usize = id.parse().ok()?;
            let ad = if let Some(c) = st.direct.get(&id) { direct!(c, c => c.ad()) } else { st.curves.get(&id)?.ad() };
            match ad {
                ADOrder::Zero => "0",
                ADOrder::One => "1",
                ADOrder::Two => "2",
            }
            .to_string()
        }
        ["idxleft", _n, rest @ ..] => {
            let xs: Vec<f64> = rest.iter().map(|s| pf(s)).collect::<Option<_>>()?;
            let (v, l) = xs.split_last()?;
            guarded(|| index_left_f64(l, *v).to_string())
        }
        _ => return None,
    })
}

// ------------------------------------------------------------------------------------------

const RULES: [&str; 5] = ["linear", "log_linear", "linear_zero_rate", "flat_forward", "flat_backward"];

/// emit one random curve with handle `id`; returns the sorted node days
fn emit_curve<W: Write>(out: &mut W, r: &mut Rng, id: usize, rule: &str, ad: usize, with_base: bool, dual_nodes: bool) -> Vec<i64> {
    let nmax = if r.chance(1, 5) { 40 } else { 8 };
    let n = r.range(2, nmax) as usize;
    let mut days: Vec<i64> = Vec::new();
    // first node anywhere from 1960 to 2024: timestamps negative, of 7 to 10 digits, and straddling 1e9 (Sep 2001)
    let mut d = match r.below(6) {
        0 => r.range(-3650, 400),
        1 => r.range(400, 11000),
        2 => r.range(11400, 11600),
        _ => r.range(10000, 20000),
    };
    for _ in 0..n {
        days.push(d);
        // spacing from 1 day to 30 years
        d += match r.below(4) {
            0 => 1,
            1 => r.range(2, 40),
            2 => r.range(40, 800),
            _ => r.range(800, 11000),
        };
    }
    // values: positive, discount-factor like (first node 1.0 for the zero-rate rule most of the time)
    let mut vals: Vec<f64> = Vec::new();
    let mut v = if rule == "linear_zero_rate" && r.chance(3, 4) { 1.0 } else { r.logu(0.5, 2.0) };
    for _ in 0..n {
        vals.push(v);
        // one step in six keeps the value: equal adjacent nodes (flat segments)
        if !r.chance(1, 6) {
            v *= r.logu(0.85, 1.1);
        }
    }
    let mut order: Vec<usize> = (0..n).collect();
    r.shuffle(&mut order);
    let idstr = *r.pick(&["v", "c", "usd", "x1_"]);
    // some nodes given as dual numbers with their own variables
    let mut node_toks: Vec<String> = Vec::new();
    for &i in &order {
        if dual_nodes && r.chance(1, 4) {
            let h = 5000 + id * 64 + i;
            let nm = format!("q{}", i);
            writeln!(out, "dual {} {} 1 {} {} 0", h, hf(vals[i]), nm, hf(1.0 + (i as f64) / 8.0)).unwrap();
            node_toks.push(format!("{} H{}", days[i], h));
        } else {
            node_toks.push(format!("{} F{}", days[i], hf(vals[i])));
        }
    }
    let base = if with_base { hf(r.logu(50.0, 200.0)) } else { "-".to_string() };
    writeln!(out, "curve {} {} {} {} {} {} {}", id, rule, ad, idstr, base, n, node_toks.join(" ")).unwrap();
    if !dual_nodes {
        // the same curve through the public `CurveDF` constructor directly, as handle id + 1, nodes supplied in
        // another order
        r.shuffle(&mut order);
        let toks: Vec<String> = order.iter().map(|&i| format!("{} F{}", days[i], hf(vals[i]))).collect();
        writeln!(out, "curvedf {} {} {} {} {} {}", id + 1, rule, idstr, base, n, toks.join(" ")).unwrap();
        if ad > 0 {
            writeln!(out, "cvorder {} {}", id + 1, ad).unwrap();
        }
    }
    days
}

fn emit_queries<W: Write>(out: &mut W, r: &mut Rng, id: usize, days: &[i64], extra: usize) {
    // boundary-complete: every node date and both neighbours, plus before/after and random interior
    for &d in days {
        for q in [d - 1, d, d + 1] {
            writeln!(out, "cvvalue {} {}", id, q).unwrap();
        }
        writeln!(out, "cvindex {} {}", id, d * 86400).unwrap();
        writeln!(out, "cvindex {} {}", id, d * 86400 + 1).unwrap();
        writeln!(out, "cvindex {} {}", id, d * 86400 - 1).unwrap();
    }
    let (lo, hi) = (days[0], *days.last().unwrap());
    writeln!(out, "cvvalue {} {}", id, lo - r.range(2, 400)).unwrap();
    writeln!(out, "cvvalue {} {}", id, hi + r.range(2, 400)).unwrap();
    for _ in 0..extra {
        writeln!(out, "cvvalue {} {}", id, r.range(lo - 30, hi + 30)).unwrap();
    }
}

pub fn gen_c11<W: Write>(out: &mut W, thorough: bool, seed: u64) {
    let mut r = Rng::new(seed ^ 0xC11);
    // index_left exhaustively: all strictly increasing lists of length 2..L over a G-point grid with all
    // grid and half-grid query points
    let (g, maxlen) = if thorough { (12usize, 9usize) } else { (9usize, 6usize) };
    fn rec<W: Write>(out: &mut W, g: usize, maxlen: usize, cur: &mut Vec<usize>, start: usize) {
        if cur.len() >= 2 {
            for q in 0..=(2 * g + 2) {
                let v = (q as f64) / 2.0 - 0.5;
                write!(out, "idxleft {}", cur.len()).unwrap();
                for x in cur.iter() {
                    write!(out, " {}", hf(*x as f64)).unwrap();
                }
                writeln!(out, " {}", hf(v)).unwrap();
            }
        }
        if cur.len() == maxlen {
            return;
        }
        for x in start..g {
            cur.push(x);
            rec(out, g, maxlen, cur, x + 1);
            cur.pop();
        }
    }
    // the full enumeration is large for thorough; quick uses the smaller grid
    let mut cur = Vec::new();
    rec(out, g, maxlen, &mut cur, 0);
    // degenerate lengths (the implementation panics on length 1)
    writeln!(out, "idxleft 1 {} {}", hf(1.0), hf(1.0)).unwrap();
    let n_curves = if thorough { 20000 } else { 500 };
    for i in 0..n_curves {
        let rule = RULES[i % 5];
        let days = emit_curve(out, &mut r, 1, rule, 0, false, false);
        writeln!(out, "cvnodes 1").unwrap();
        emit_queries(out, &mut r, 1, &days, 12);
        // the directly constructed twin, before and after a JSON round trip
        writeln!(out, "cvnodes 2").unwrap();
        emit_queries(out, &mut r, 2, &days, 4);
        writeln!(out, "cvjson 2").unwrap();
        writeln!(out, "cvnodes 2").unwrap();
        emit_queries(out, &mut r, 2, &days, 4);
        writeln!(out, "reset").unwrap();
    }
}

pub fn gen_c12<W: Write>(out: &mut W, thorough: bool, seed: u64) {
    let mut r = Rng::new(seed ^ 0xC12);
    let n_curves = if thorough { 30000 } else { 300 };
    for i in 0..n_curves {
        let rule = RULES[i % 5];
        let ad = r.below(3) as usize;
        let with_base = r.chance(2, 3);
        let dual_nodes = r.chance(1, 3);
        let days = emit_curve(out, &mut r, 1, rule, ad, with_base, dual_nodes);
        writeln!(out, "cvnodes 1").unwrap();
        writeln!(out, "cvad 1").unwrap();
        let n_switch = r.range(0, 8);
        let (lo, hi) = (days[0], *days.last().unwrap());
        let probes: Vec<i64> = (0..6).map(|_| r.range(lo - 20, hi + 20)).collect();
        for p in &probes {
            writeln!(out, "cvvalue 1 {}", p).unwrap();
            writeln!(out, "cvidxval 1 {}", p).unwrap();
        }
        for _ in 0..n_switch {
            writeln!(out, "cvorder 1 {}", r.below(3)).unwrap();
            writeln!(out, "cvad 1").unwrap();
            writeln!(out, "cvnodes 1").unwrap();
            for p in &probes {
                writeln!(out, "cvvalue 1 {}", p).unwrap();
                writeln!(out, "cvidxval 1 {}", p).unwrap();
            }
            // node dates themselves
            let d = *r.pick(&days);
            writeln!(out, "cvvalue 1 {}", d).unwrap();
        }
        writeln!(out, "cvidxval 1 {}", lo - 5).unwrap();
        if !dual_nodes {
            // the directly constructed twin: order switches interleaved with JSON round trips
            writeln!(out, "cvnodes 2").unwrap();
            for _ in 0..r.range(1, 4) {
                match r.below(3) {
                    0 => writeln!(out, "cvjson 2").unwrap(),
                    _ => writeln!(out, "cvorder 2 {}", r.below(3)).unwrap(),
                }
                writeln!(out, "cvad 2").unwrap();
                writeln!(out, "cvnodes 2").unwrap();
                for p in &probes {
                    writeln!(out, "cvvalue 2 {}", p).unwrap();
                    writeln!(out, "cvidxval 2 {}", p).unwrap();
                }
            }
        }
        writeln!(out, "reset").unwrap();
    }
}

#[allow(dead_code)]
fn _unused() {
    let _ = DateTime::from_timestamp(0, 0);
}
