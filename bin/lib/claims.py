"""What MANIFEST.json claims per property."""
HOOK_COMMITS = []
NOT_YET = {}
_corr = ("Assumes: the hand-written Lean model mirrors the Rust code (checked on every run by the differential "
         "correspondence run, not proved); Lean kernel + axioms propext/Classical.choice/Quot.sound; ")
CLAIMS = {
 "C08": dict(
    text="Lean 4 theorems over the model of add_months/get_roll/get_imm/get_eom/is_leap_year for every integer month "
         "offset, year, month and roll day (C08_add_months_ym, C08_add_months, C08_add_months_imm, C08_imm, C08_eom, "
         "C08_leap, C08_get_roll_total); the model is tied to the code by an exhaustive correspondence run over all "
         "84371 dates / 2772 months and ~450k add_months cases.",
    design_ref="DESIGN.md §3 C08",
    note=_corr + "chrono's calendar arithmetic is modelled (toDay/ofDay/weekday) and cross-checked exhaustively on 1970-2200, not verified.",
    technique="Lean 4 proof (omega/induction) over hand-written model + exhaustive differential correspondence"),
}
