"""What MANIFEST.json claims per property."""
HOOK_COMMITS = ["cdddc02"]
NOT_YET = {}
_corr = ("Assumes: the hand-written Lean model mirrors the Rust code (checked on every run by the differential "
         "correspondence run, not proved); Lean kernel + axioms propext/Classical.choice/Quot.sound; ")
CLAIMS = {
 "C01": dict(
    text="Lean 4 + Mathlib theorems over ℝ for EVERY formula of the grammar (induction on the expression): the model's "
         "dual-number evaluation returns the plain value (C01_value) and, for every variable name, the true derivative "
         "of the formula along any differentiable motion of the leaves consistent with their tags (C01_grad_exact, "
         "C01_partial_derivative), via scalar-jet soundness against Mathlib's HasDerivAt (13 operators incl. Φ via FTC "
         "and Φ⁻¹ via the inverse function theorem) and a refinement from the list-level dual numbers to jets "
         "(C01_refines); float/dual mixing = promotion for +,-,* and / in both operand positions (C01_mixed_eq_promoted, C01_mixed_div), owned = borrowed (C01_variants). "
         "Correspondence: thousands of random formulas inside the differentiable domain, close-float.",
    design_ref="DESIGN.md §3 C01",
    note=_corr + "f64 rounding, glibc exp/log/pow, statrs Φ/Φ⁻¹ modelled not verified; mixed-operand theorems: first order here, second order C02_mixed_eq_promoted.",
    technique="Lean 4 + Mathlib proof (structural induction, HasDerivAt) over hand-written model + differential correspondence"),
 "C02": dict(
    text="Lean 4 + Mathlib theorems over ℝ, a complete chain from the list-level code to real analysis: (1) the Dual2 chain "
         "rules, as scalar 2-jets (value, first, half second derivative), are sound along every twice-differentiable "
         "curve for every formula (C02_second_exact) and agree with first order in value and gradient (C02_proj); (2) the "
         "LIST-LEVEL Dual2 arithmetic (alignment of gradient and Hessian blocks by variable name, any layouts) refines "
         "these jets along every direction in the plane of two variable names (C02_refines, induction over the formula "
         "with name-indexed specifications of +,-,*,/,pow,exp,log,Φ,Φ⁻¹,abs,neg); hence (3) value, gradient and Hessian "
         "entries, diagonal and mixed, of the evaluated number are the true derivatives (C02_hessian_exact, "
         "C02_hessian_entries by polarisation) and the Hessian is symmetric (C02_symmetric); read-back doubles the stored "
         "half (C02_readback); conversion down drops only the Hessian (C02_from_drops_only_hessian); a float on either side of + - * / equals the promoted constant to second order (C02_mixed_eq_promoted). Correspondence: "
         "random formulas, Hessian per name pair, symmetry/finite-derivative oracle restricted to formulas whose "
         "intermediate values are finite.",
    design_ref="DESIGN.md §3 C02",
    note=_corr + "as C01: f64 rounding, libm, statrs Φ/Φ⁻¹ modelled not verified.",
    technique="Lean 4 + Mathlib proof (second-order jet soundness + list-level refinement by induction) + differential correspondence with symmetry oracle"),
 "C03": dict(
    text="Lean 4 theorems over the list-level model of Vars::vars_cmp/to_new_vars/to_union_vars and the Dual +,-,*,== "
         "implementations, for every pair of shape-valid numbers over any commutative ring and every pointer-equality "
         "flag consistent with the invariant: results are well-formed and carry exactly the union of names (C03_wf), act "
         "name by name (C03_hom), are independent of layout, zero-padding and storage sharing (C03_layout_irrelevant, "
         "C03_ptr_irrelevant), equality = agreement per name (C03_eq). The same for second-order numbers incl. the stored "
         "half-Hessian per PAIR of names and the product rule with the symmetrised cross term (C03_wf_dual2, C03_hom_dual2, "
         "C03_layout_irrelevant_dual2, C03_ptr_irrelevant_dual2, and C03_eq_dual2: == is agreement of value, gradient by name "
         "and Hessian by name pair; Proofs/Dual2Layout.lean). Constructors on ANOTHER number's list (new_from / try_new_from, "
         "Proofs/NewFrom.lean): exactly that list, the fresh number's derivative for every name it has, nothing for the others, an "
         "error exactly when try_new gives one (C03_new_from, C03_try_new_from, C03_new_from_dual2). Correspondence is exhaustive over layouts of a 3/4-name pool, bit-exact.",
    design_ref="DESIGN.md §3 C03",
    note=_corr + "f64 rounding modelled (theorems over rings; exact dyadic inputs in the run); the remainder operator's name-indexed spec is in C19.",
    technique="Lean 4 proof (list induction, name-indexed denotation refinement) + exhaustive-layout differential correspondence"),
 "C04": dict(
    text="Lean 4 theorems over the model of DateRoll::roll and its eight search loops, for every calendar (arbitrary "
         "weekday/holiday/settlement predicates), date, rule and settlement flag: first-eligible characterisation "
         "(C04_following/_previous), modified rules (C04_modified_*), C04_act, C04_fixed_point, C04_idempotent, "
         "termination whenever an eligible day is within reach (C04_fuel_*, C04_total). Tied to the code by a "
         "correspondence run on random admissible calendars and named combinations.",
    design_ref="DESIGN.md §3 C04",
    note=_corr + "chrono modelled; loops modelled with fuel (sufficiency proved); times of day not modelled.",
    technique="Lean 4 proof (induction over the search loops) + differential correspondence"),
 "C05": dict(
    text="Lean 4 theorems: add_bus_days counts exactly |n| business days (C05_count_pos/_neg), settlement variant is "
         "the onward roll (C05_settlement), inverse law (C05_inverse), rejection (C05_rejects), lag rule (C05_lag), "
         "bus_date_range = filter of the calendar range (C05_range), add_days = shift then roll (C05_add_days), for every "
         "calendar, date and day count. Correspondence: all 256 i8 counts on each (calendar, start) pair.",
    design_ref="DESIGN.md §3 C05",
    note=_corr + "i8 counter modelled as Int (the code's counter stays within i8 for every i8 argument).",
    technique="Lean 4 proof (induction over the counter loops, counting lemmas) + differential correspondence"),
 "C06": dict(
    text="Lean 4 theorems: union business-day and settlement predicates (C06_bus, C06_settle), NamedCal::try_new is "
         "the union of the looked-up parts, case-insensitively, with errors for >1 pipe and unknown names "
         "(C06_named_*, C06_error_*), behavioural equality (C06_eq). Correspondence incl. model-free cross-check of "
         "named calendars against explicit unions of the same tables.",
    design_ref="DESIGN.md §3 C06",
    note=_corr + "Unicode to_lowercase modelled as ASCII; built-in tables are inputs of the model (dumped from the code).",
    technique="Lean 4 proof (list all/any, structural recursion) + differential correspondence"),
 "C07": dict(
    text="Translator by execution + kernel decision: the holiday tables, week masks, documented names and fixing dates are "
         "re-extracted from the running code and data files on every run into Lean constants, and the Lean kernel "
         "re-proves (decide +kernel) that each of the 7 fully published calendars equals its rule-generated table on "
         "every weekday 1970-2200 (C07_full_*), 'all'/'bus' are empty, 'fed' = 'nyc' minus Good Friday, the 5 partial "
         "rule sets are contained (C07_partial_*), every documented name resolves, and the 9 fixing histories equal the "
         "business days (C07_fixings_*). Complete, not sampled; plus an exhaustive date-by-date correspondence run "
         "that yields the failing date as replay.",
    design_ref="DESIGN.md §3 C07",
    note="Trusted: the dump (harness walks is_weekday/is_holiday over all 84371 dates), the docstring/CSV parsers, the "
         "transcription of the pandas rule scripts into Lean (specification), Lean kernel (GMP arithmetic in decide +kernel).",
    technique="Lean 4 kernel decision (decide +kernel) over tables regenerated from the running code"),
 "C08": dict(
    text="Lean 4 theorems over the model of add_months/get_roll/get_imm/get_eom/is_leap_year for every integer month "
         "offset, year, month and roll day (C08_add_months_ym, C08_add_months, C08_add_months_imm, C08_imm, C08_eom, "
         "C08_leap, C08_get_roll_total); the model is tied to the code by an exhaustive correspondence run over all "
         "84371 dates / 2772 months and ~450k add_months cases.",
    design_ref="DESIGN.md §3 C08",
    note=_corr + "chrono's calendar arithmetic is modelled (toDay/ofDay/weekday) and cross-checked exhaustively on 1970-2200, not verified.",
    technique="Lean 4 proof (omega/induction) over hand-written model + exhaustive differential correspondence"),
 "C09": dict(
    text="Lean 4 theorems over the model of the triangulation: over any field, whenever it returns a result every one of "
         "the n x n rates is populated and equals the ratio of the two currencies' potentials (C09_arbitrage_free), hence "
         "diagonal 1, rate x inverse = 1, triangle/path law (C09_inverse_and_path) and independence of quote order and base "
         "(C09_order_base_irrelevant); populated entries (quotes, diagonal) are never rewritten - returned exactly as quoted "
         "for every element type (C09_exact_quotes, C09_seed_holds_quote); count and settlement rejections (C09_rejects, "
         "C09_rejects_settlement). COMPLETE/REJECT: the triangulation returns a result (within the model's fuel) whenever the "
         "quoted pairs connect all n currencies (C09_complete: graph argument - a connected incomplete graph has a node "
         "with two unconnected neighbours, exhausted nodes are cliques, the populated count strictly grows) and never "
         "returns one when they do not (C09_disconnected_rejected: closed sets stay closed); C09_seed_edges says which "
         "pairs the seed populates. NO POTENTIAL ASSUMED (C09_tree_arbitrage_free; Proofs/TreePotential.lean): n-1 edges "
         "connecting n vertices form a tree and on a tree every assignment of commutative-group elements to the edges is a "
         "coboundary (union-find run with a Finset.card count of the classes), so whenever the triangulation returns a "
         "result for n-1 non-zero quotes over n currencies a non-vanishing potential u with quote = u_a/u_b EXISTS and "
         "every one of the n x n rates equals u_i/u_j.",
    design_ref="DESIGN.md §3 C09",
    note=_corr + "f64 rounding not modelled (theorems over fields).",
    technique="Lean 4 proof (loop invariants by induction over the triangulation, field algebra) + differential correspondence + model-free oracle"),
 "C10": dict(
    text="Lean 4 theorems: naming of lifted quotes (C10_naming); refused updates change nothing "
         "(C10_refused_update_noop); an accepted update is exactly the market rebuilt from the latest quotes "
         "(C10_update_is_rebuild); order switches keep quotes and currencies (C10_order_keeps_quotes), lowering "
         "projects values (C10_lowering_projects), and the first-order matrix has the zero-order matrix as values, bit "
         "for bit, via a homomorphism theorem for the triangulation (C10_order_keeps_values, for EVERY scalar type "
         "incl. f64 itself - true of the code since the repair of f64 / Dual). SENSITIVITIES (Proofs/FXSens.lean): the "
         "triangulation preserves every relation closed under its arithmetic; hence (C10_sensitivity) for plain-number "
         "quotes the sensitivity of EVERY cross i/j to fx_<q0> is (s_i - s_j) * cross / quote with s the cut that q0 "
         "alone crosses (the two sides of the edge in the tree): +cross/quote or -cross/quote on the path (sign by "
         "direction of travel), 0 off it (C10_sensitivity_cases); C10_sensitivity_general for quotes that are already "
         "dual numbers; second order C10_second_order_same (1/2 cross (s^2 - s)/quote^2) and C10_second_order_cross "
         "(1/2 cross s0 s1/(quote0 quote1)). NO POTENTIAL OR CUT ASSUMED (C10_sensitivity_tree, "
         "C10_second_order_same_tree, C10_second_order_cross_tree; Proofs/FXTree.lean): whenever create_fx_array returns an "
         "array for n-1 non-zero plain-number quotes over n currencies the potential and a 0/1 cut for every quote EXIST, so "
         "every sensitivity is +cross/quote, -cross/quote or 0.",
    design_ref="DESIGN.md §3 C10",
    note=_corr + "f64 rounding not modelled (theorems over R); quotes that are already dual numbers are covered by the "
         "general form with a potential hypothesis (C10_sensitivity_general).",
    technique="Lean 4 proof (state machine, homomorphism/parametricity and relation-preservation of the triangulation) + differential correspondence + model-free oracle"),
 "C11": dict(
    text="Lean 4 theorems: index_left terminates and returns the clamped bracketing interval for every list of >= 2 nodes "
         "and every query (C11_index_left, by induction over the recursive bisection incl. its n == 3 special case), which "
         "is unique for strictly increasing nodes (C11_index_left_unique, _cases); every look-up uses exactly that interval "
         "(C11_interval_used); flat rules return a node value itself (C11_flat_exact, every scalar type); over ℝ the "
         "straight-line, log-linear and zero-rate closed forms hit their nodes and the first two stay between them "
         "(C11_linear, C11_log_linear, C11_zero_rate); supply order is irrelevant (C11_order_irrelevant).",
    design_ref="DESIGN.md §3 C11",
    note=_corr + "timestamps modelled as Int seconds; i64 -> f64 conversion exact below 2^53.",
    technique="Lean 4 proof (induction over the bisection, sorting lemmas, real analysis) + differential correspondence"),
 "C12": dict(
    text="Lean 4 theorems: any sequence of order switches keeps every node value and date bit for bit "
         "(C12_values_invariant), tags of a float curve are <id><i> in date order (C12_tags), 1<->2 keep names "
         "(C12_keep_names), looked-up values are order-independent bit for bit for the smooth rules "
         "(C12_lookup_value_invariant), index value = base / value, 0 before the first node, error without base "
         "(C12_index_value); the first-order sensitivities of the straight-line, log-linear and zero-rate rules (both "
         "branches of the latter) are the C01 jets of the rules' formulas, i.e. the true derivatives (C12_grad_linear, "
         "C12_grad_log_linear, C12_grad_zero_rate), and vanish for nodes outside the interval (C12_local); at second order "
         "value, gradient and Hessian of each smooth rule on Dual2 nodes are, along every direction of two variable names, "
         "the C02 2-jet of the rule's formula (C12_hess_linear, C12_hess_log_linear, C12_hess_zero_rate). A float-noded curve "
         "built directly at order k is the curve built at order 0 and then switched (C12_construction_routes_agree); both "
         "routes - the Python-facing constructor and the public CurveDF::try_new + set_ad_order - are driven by the run.",
    design_ref="DESIGN.md §3 C12",
    note=_corr + "theorems over ℝ; f64 rounding modelled.",
    technique="Lean 4 proof over state-machine model of set_ad_order + differential correspondence"),
 "C13": dict(
    text="Lean 4 + Mathlib theorems over the model of dsolve21_/dsolve_upper21_/argabsmax/row and element swaps: over "
         "ANY commutative ring with division, for every size n, every matrix, right-hand side and pivot-comparison "
         "function, if every pivot divided by satisfies x/p*p = x then A x = b (C13_sound; loop invariants: row "
         "operations preserve the solution set, explicit zeroing is a genuine row operation, back substitution solves "
         "the triangular system); fields (C13_sound_field) where the solution is then the only one (C13_complete); "
         "Mathlib's dual numbers TrivSqZeroExt R R (C13_sound_dual_numbers); normal equations (C13_lsq); row order "
         "irrelevant when the solution is unique (C13_row_order_irrelevant); over an ordered field with the code's "
         "magnitude pivot rule a uniquely solvable system never meets a zero pivot and the solver returns that "
         "solution (C13_nonsingular; C13_absGe_real, C13_geR: at R this is the model's own comparison). LIST-LEVEL "
         "DUAL-NUMBER MATRICES (Proofs/LinHom.lean, Proofs/Jet2Ring.lean): the generic solver commutes with every "
         "homomorphism of its arithmetic incl. pivot choices; the (value, sensitivity-to-v) projection of first-order "
         "numbers into R[e]/(e^2) and the directional 2-jet of second-order numbers into R[e]/(e^3) (CommRing instance "
         "built here) are such homomorphisms for all layouts (C13_dual_matrix_refines, C13_dual2_matrix_refines, "
         "C13_lsq_refines); for a regular value system A x = b holds in value, every first derivative "
         "(C13_dual_matrix) and, as 2-jets along every direction, every second derivative (C13_dual2_matrix) carried "
         "by A or b. Float matrix, dual right-hand sides: C13_dual_rhs, C13_dual2_rhs (linearity).",
    design_ref="DESIGN.md §3 C13",
    note=_corr + "conditioning/rounding not modelled (theorems over rings/fields/R).",
    technique="Lean 4 + Mathlib proof (loop invariants over folds, Finset sums, ring algebra, homomorphism transport into R[e]/(e^2) and R[e]/(e^3)) + differential correspondence"),
 "C14": dict(
    text="Lean 4 + Mathlib theorems over R for EVERY order K >= 1 and EVERY non-decreasing knot list with K-fold end "
         "knots (any interior multiplicity): the model's bsplev (support short-circuit, right-end-point rule with "
         "org_k, half-open order-1 indicator, zero-width guards) equals the pure Cox-de Boor recursion strictly before "
         "the last knot (C14_is_cox_de_boor), is 1/0 at the right end point (C14_right_end), is non-negative "
         "(C14_nonneg), vanishes outside its k spans (C14_support), and the n basis functions sum to one everywhere in "
         "the domain incl. interior knots and the right end point (C14_partition_of_unity). DERIVATIVES "
         "(Proofs/BSplineDeriv.lean, Mathlib HasDerivWithinAt): at every point strictly before the last knot, interior "
         "knots of any multiplicity and the left end point included, the order-(m+1) output of bspldnev is the RIGHT "
         "derivative of the order-m output as a function of the abscissa (C14_right_derivative) and is given by the "
         "derivative recursion over the Cox-de Boor functions (C14_derivative_recursion); at the last knot it is the "
         "LEFT derivative (C14_left_derivative_at_right_end), the right-end-point rule with the carried ORIGINAL order "
         "yielding the left-continuous representative of the same piecewise polynomial (C14_right_end_derivatives, "
         "C14_one_piecewise_polynomial); order 0 is the value and orders m >= k vanish (C14_deriv_zero, "
         "C14_deriv_high). DUAL ABSCISSA on one basis function (the public bsplev_single_dual(2) / "
         "bspldnev_single_dual(2), called directly by the run): value, d1*dx and d1*(half d2x) + half*d2*dx dx by (pairs of) names, "
         "d1, d2 the right derivatives of the order-m and order-(m+1) outputs (C14_dual_abscissa_single, "
         "C14_dual2_abscissa_single).",
    design_ref="DESIGN.md §3 C14",
    note=_corr + "f64 rounding not modelled (theorems over R); the right-end statements assume the last knot has multiplicity "
         "exactly K.",
    technique="Lean 4 + Mathlib proof (induction on the order, Finset telescoping, one-sided derivatives within half-lines) + differential correspondence + model-free oracle"),
 "C15": dict(
    text="Lean 4 + Mathlib theorems: after csolve the spline satisfies every collocation condition - value at interior "
         "sites, left_n/right_n-th derivative at the two end sites - whenever the elimination meets no zero pivot "
         "(C15_collocation); site-count errors (C15_len_errors), unsolved-evaluation error (C15_unsolved_error), "
         "coefficient shape (C15_csolve_shape). POLYNOMIAL REPRODUCTION: Marsden's identity for the model's basis on "
         "every span and the whole domain incl. the right end point (Proofs/Marsden.lean), hence every polynomial of "
         "degree < k is a spline with ALL derivatives (C15_polynomials_are_splines); a system with no zero pivot has "
         "exactly one solution (C15_solver_complete); therefore a spline solved on data from a polynomial of degree < "
         "k (values at interior sites, prescribed derivatives at end sites) equals it with all derivatives everywhere "
         "in the domain, knots and both end points included (C15_polynomial_reproduction; from uniqueness of the interpolation "
         "problem alone: C15_polynomial_reproduction_unique; least-squares branch with full column rank: "
         "C15_polynomial_reproduction_lsq). DERIVATIVES / DUAL "
         "ABSCISSAE: the order-(m+1) evaluation is the one-sided derivative of the order-m evaluation "
         "(C15_spline_derivative, C15_spline_derivative_right_end); at a dual abscissa value = plain evaluation, "
         "sensitivities S'(x) dx and S'(x) 1/2 d2x + 1/2 S''(x) dx dx (C15_dual_abscissa, C15_dual2_abscissa); with "
         "dual coefficients product + chain rule (C15_dual_abscissa_dual_coeffs by names, "
         "C15_dual2_abscissa_dual2_coeffs as 2-jets along every direction). DATA SENSITIVITIES: C15_data_sensitivity, "
         "C15_data_value, C15_data_sensitivity2 (sensitivity to each name = spline solved on the data's sensitivities, "
         "i.e. the unit-data spline for one tag per datum).",
    design_ref="DESIGN.md §3 C15",
    note=_corr + "Schoenberg-Whitney non-singularity is a hypothesis (no zero pivot); f64 rounding not modelled.",
    technique="Lean 4 + Mathlib proof (C13 soundness/completeness composed with the collocation matrix, Marsden identity via polynomial coefficients, one-sided derivatives, module homomorphisms) + differential correspondence + model-free oracle"),
 "C16": dict(
    text="Lean 4 theorems: the bincode wire format of Dual, Dual2, Number, PPSpline (3 types), FXRates (quotes + currencies "
         "only), NamedCal (name only) and Curve (typed node map, interpolator, id, convention, modifier, index base, named calendar), modelled from serde's derive layout, round-trips for every value whose sizes fit "
         "64 bits - floats as arbitrary bit patterns (C16_bincode_*; combinator lemmas for integers, sequences, strings, "
         "options, ndarray). The model's bytes are compared byte for byte with the implementation's on every run. JSON at "
         "document level: the forms of the documents to_json writes for Dual, Dual2, float-noded curves (timestamps of any "
         "sign and digit count), float splines (solved or not) and FX markets are model definitions, recognised in the "
         "library's own to_json output on every run (`written` lines), and C16_written_{dual,dual2,curve,spline,fxrates}_loads "
         "prove the loader model accepts each with exactly the written shape under the type invariants. PARTIAL "
         "(validation, not proof): JSON text layer, tagged entry point, Cal/UnionCal and 'answers every "
         "query identically' are decided by model-free round trips on the real code with arbitrary finite doubles (they "
         "exposed the missing float_roundtrip feature, repaired).",
    design_ref="DESIGN.md §3 C16",
    note="Trusted: serde/serde_json/ryu/bincode/chrono/ndarray implementations (validated by byte comparison and round trips "
         "only); Lean kernel; the wire-format model mirrors observed bytes.",
    technique="Lean 4 proof of the wire-format round trip + byte-exact differential correspondence + model-free round trips"),
 "C17": dict(
    text="Lean 4 theorems for every shape-valid number and every distinct request list: gradient1 = map of per-name "
         "derivatives in request order on both code paths (C17_gradient1, C17_gradient1_dual2), gradient2 entry (i,j) = "
         "2 x stored half-Hessian per name pair (C17_gradient2), manifold elements (C17_manifold, C17_manifold_elems), "
         "and the PRODUCT RULE ON MANIFOLDS: over any field with 2 != 0, for all layouts, the manifold element of a*b has "
         "the value and gradient of M(a)*b + a*M(b) (C17_manifold_product_rule, from the second-order name-indexed product "
         "rule). The same rule is checked on the implementation by a model-free oracle (it exposed a genuine defect, since "
         "repaired).",
    design_ref="DESIGN.md §3 C17",
    note=_corr + "theorems over rings/fields; f64 rounding modelled.",
    technique="Lean 4 proof over list model + exhaustive request-order correspondence + model-free oracle"),
 "C18": dict(
    text="Lean 4 theorems for every scalar type (no algebraic law, so f64 itself): the 3x3 set_order table and value "
         "preservation (C18_set_order, C18_values_preserved, C18_names_attached), From conversions (C18_from), Number "
         "arithmetic = contained-type arithmetic and is refused exactly for Dual/Dual2 mixes (C18_number_ops, "
         "C18_number_ops_refusal, C18_number_cmp_refusal). Correspondence exhaustive over kind x kind x operator.",
    design_ref="DESIGN.md §3 C18",
    note=_corr + "refusal = panic observed through catch_unwind.",
    technique="Lean 4 proof (case analysis, definitional) + exhaustive differential correspondence"),
 "C19": dict(
    text="Lean 4 theorems: comparisons depend on values only (C19_ord), abs flips value and all derivative arrays "
         "together (C19_abs), sum = left fold from zero (C19_sum), a % b = a - trunc(a/b) b in value and per-name "
         "derivative over any field (C19_rem, C19_rem_def, C19_rem_float), zero/one neutrality (C19_neutral).",
    design_ref="DESIGN.md §3 C19",
    note=_corr + "fmod vs a - trunc(a/b) b rounding for huge quotients not modelled; abs at exactly 0 follows the code's `> 0` test.",
    technique="Lean 4 proof over list model + differential correspondence"),
 "C20": dict(
    text="Lean 4 theorems over a model in which every panic site of the implementation is an explicit marker: "
         "add_days / add_bus_days / lag return a value (or the documented error) for EVERY day count (C20_add_days_total, "
         "C20_add_bus_days_total, C20_lag_total, C20_lag_i8); add_months for every offset, date and roll day 1..31 / eom / "
         "som / imm / unspecified (C20_add_months_total, using ofDay_bounds); adjustment returns a date whenever an "
         "eligible day is within reach (C20_adjust_total). Every validating constructor returns an error or a value with "
         "its shape invariants (C20_dual_try_new, C20_dual2_try_new, C20_dual_try_new_from, C20_dual2_try_new_from, C20_ccy_try_new, C20_fxpair_try_new, "
         "C20_named_try_new, C20_fxrates_try_new, C20_csolve); a pair is accepted EXACTLY when both codes have three bytes "
         "and differ after lower-casing (C20_fxpair_accepts_iff, C20_fxpair_self_rejected) and a stored currency name is a "
         "fixed point of the constructor (C20_ccy_stored_name_reloads, C20_lower_idempotent). Loading: for EVERY JSON tree the tagged entry point returns "
         "an error or a value whose shape invariants hold, with no abort path (C20_load_tagged and the per-type "
         "C20_load_*), over a Lean model of serde's derived visitors, ndarray's visitor and the validating data models. "
         "The correspondence run executes every call of the real code under catch_unwind (JSON loading in a worker "
         "process, so an abort is an observed outcome) and compares outcome and shape with the model; a model-free "
         "oracle rejects any panic/abort and any returned value that breaks a shape invariant. The run exposed seven "
         "genuine defects (abort on bad NamedCal/FXRates documents, panic on an empty currency list, csolve panic on "
         "singular systems, unvalidated Dual/Dual2, Ccy/FXPair and PPSpline documents), all repaired (known_findings.json). "
         "Curve documents are modelled as well (C20_load_curve: derived visitors, the i64-keyed node map read from the raw "
         "key text, unit-variant enums, CalType). TERMINATION: every adjustment returns a date once the fuel exceeds the "
         "distance to the span of the holidays plus 8 days, for every calendar with a working weekday and every combination "
         "whose parts share one (C20_adjust_terminates, C20_cal_adjust_terminates, C20_union_adjust_terminates) - so the real "
         "loops, which carry no fuel, terminate; a calendar with no (common) working weekday is the excluded point.",
    design_ref="DESIGN.md §3 C20",
    note="Trusted: Lean kernel; the hand-written model's placement of panic markers (validated by catch_unwind on every "
         "call); the driver's JSON tokenizer; chrono/serde_json/ndarray themselves. Rust's Unicode lower-casing modelled "
         "by lowerStr, exact on U+0000-U+00FF, U+0400-U+045F and the six capitals whose lower-case form changes its UTF-8 length (every code point swept on every run), cased letters "
         "elsewhere outside the modelled domain. The per-type from_json entry points (NamedCal, Cal, UnionCal, FXRates, Dual, "
         "Dual2) receive the same mutated documents as the tagged one (`loadtyped` lines).",
    technique="Lean 4 proof (totality and shape invariants over every input / every JSON tree) + differential correspondence under catch_unwind and process isolation + model-free oracle"),
}
