"""Per-property configuration of the correspondence check (comparison rule, statistics,
definition ops, known-finding keys)."""

TRUSTED_BASE = [
    "Lean 4.33.0 kernel; axioms limited to propext, Classical.choice, Quot.sound (audited per theorem by `#print axioms`)",
    "no native_decide, bv_decide, sorry, own axioms (grep + #print axioms)",
    "correspondence harness (/verif/harness, real rateslib code in-process) and comparator (/verif/bin/lib/rlcheck.py)",
    "Lean compiler + C toolchain for the executable driver (affects the correspondence only)",
]

DEF_OPS = {"flt", "cal", "ucal", "defname", "named", "reset", "dual", "dual2", "num", "fx", "fxupdate", "fxorder",
           "curve", "cvorder", "spline", "csolve"}


class Prop:
    def __init__(self, rule, classify, mode="exact", modes=None, gen=True, regenerate=None,
                 exhaustive=None, trusted=None, assumptions=None, rtol=1e-9, atol_rel=1e-12,
                 finding_key=None, oracle=None, oracle_finish=None, def_ops=None, allow_badop=False,
                 compare_op=None, semantic_names=False, correspondence_only=None, cond_rescue=False,
                 segment_scale=False, line_scale=None, sort_names=False):
        # True: dual numbers are compared with their variables in NAME order (the internal order of a result's
        # variable list is not an observable of any property)
        self.sort_names = sort_names
        # optional stateful object with .feed(toks) -> float: an op-specific magnitude (fed every op line in order)
        # that the absolute part of the tolerance is taken relative to, besides the magnitudes on the answer line
        self.line_scale = line_scale
        # True where an answer may be pure rounding noise around zero (a residual, a derivative that vanishes):
        # the absolute tolerance is then relative to the largest magnitude seen since the last `reset`
        # (operands and answers), not only to the magnitudes on the answer line itself
        self.segment_scale = segment_scale
        # True where a tolerance mismatch may be a rounding-level difference amplified by cancellation: the check
        # then measures the conditioning of the op with the MODEL (perturbed operands) before judging it
        self.cond_rescue = cond_rescue
        # predicate (toks, impl, model) -> True for a mismatch on an observable the property leaves open
        self.correspondence_only = correspondence_only
        # True where the property does not determine a result's variable LIST (solver, splines, curve look-ups,
        # FX rates): a variable carried with zero derivatives and a missing variable are then the same answer
        self.semantic_names = semantic_names
        self.compare_op = compare_op
        self.allow_badop = allow_badop
        self.rule = rule
        self._classify = classify
        self.mode = mode
        self.modes = modes or {}
        self.gen = gen
        self.regenerate = regenerate
        self.exhaustive = exhaustive
        self.trusted = trusted or []
        self.assumptions = assumptions or []
        self.rtol = rtol
        self.atol_rel = atol_rel
        self._finding_key = finding_key
        self.oracle = oracle
        self.oracle_finish = oracle_finish
        self.def_ops = def_ops or DEF_OPS

    def mode_for(self, toks):
        return self.modes.get(toks[0], self.mode) if toks else self.mode

    def classify(self, toks, impl):
        return self._classify(toks, impl)

    def is_def(self, toks):
        return bool(toks) and toks[0] in self.def_ops

    def finding_key(self, toks, impl, model):
        if self._finding_key:
            return self._finding_key(toks, impl, model)
        return toks[0] if toks else "?"


# ---------------------------------------------------------------------------------------------
# dates

def _cls_c08(t, impl):
    op = t[0]
    if op in ("cal",):
        return None, False
    if op == "addmonths":
        # non-trivial: a non-zero month offset
        return "addmonths:roll=" + t[5][0], t[3] != "0"
    if op == "civil":
        return op, True
    if op in ("isimm", "iseom", "leap"):
        return op + "=" + impl, impl == "1"
    return op, True


def _cls_c04(t, impl):
    if t[0] != "roll":
        return None, False
    moved = impl != t[2]
    return "roll:%s:settle=%s:%s" % (t[3], t[4], "moved" if moved else "unmoved"), moved


def _cls_c05(t, impl):
    op = t[0]
    if op in ("addbus", "lag", "adddays"):
        n = int(t[3])
        sign = "neg" if n < 0 else ("zero" if n == 0 else "pos")
        kind = "err" if impl == "err" else ("panic" if impl == "panic" else "ok")
        return "%s:%s:%s" % (op, sign, kind), kind == "ok" and n != 0
    if op == "busrange":
        return "busrange:" + ("err" if impl == "err" else "ok"), impl.startswith("ok ") and len(impl.split()) > 2
    return None, False


def _key_c05(t, impl, model):
    if t[0] in ("addbus", "lag", "adddays"):
        return "%s:days=%s:impl=%s" % (t[0], t[3], impl if impl in ("err", "panic") else "value")
    return t[0]


def _cls_c06(t, impl):
    op = t[0]
    if op == "named":
        return "named:" + impl, True
    if op in ("isbus", "issettle", "iswd", "ishol"):
        return op + "=" + impl, impl != "bad-op"
    if op == "caleq":
        return "caleq=" + impl, True
    return None, False


class C06Oracle:
    """model-free: the answers for a named calendar (handle h) and for the explicit union built
    from the same parts (handle h+1) must coincide, query by query."""

    def __init__(self):
        self.last = None
        self.fails = []

    def __call__(self, t, impl):
        if t[0] in ("isbus", "issettle", "iswd", "ishol") and impl in ("0", "1"):
            h = int(t[1])
            if 1000 <= h < 1000000:
                if self.last and self.last[0] == t[0] and self.last[2] == t[2] and self.last[1] + 1 == h:
                    if self.last[3] != impl:
                        r = "named calendar answers %s but the explicit union of its parts answers %s" % (self.last[3], impl)
                        self.last = None
                        return r
                self.last = (t[0], h, t[2], impl)
        return None


_dates_trusted = [
    "hand-written model of rust/calendars/dateroll.rs and calendar.rs (lean/RateslibModel/Model/{Dates,Cal}.lean), "
    "tied to the code by the correspondence run",
    "chrono date arithmetic: modelled by toDay/ofDay/weekday, cross-checked on every date 1970-01-01..2200-12-31",
]
_dates_assume = ["times of day are not modelled (all datetimes are midnight)",
                 "the unbounded while-loops of the implementation are modelled with fuel; the theorems show the fuel "
                 "suffices whenever an eligible day exists within it"]

PROPS = {}

PROPS["C08"] = Prop(
    rule="exhaustive: leap/imm/eom for all 231 years x 12 months; civil/isimm/iseom for all 84371 dates; "
         "add_months (Modifier::Act) from every valid (month, day) of 3 (quick) / 6 (thorough) years incl. leap and "
         "century years x offsets -40..40 (quick) / -130..130 x 5 roll kinds; random long offsets landing in 1970-2200. "
         "non-trivial = month offset != 0 (add_months), every table query",
    classify=_cls_c08, exhaustive=lambda tier: True, trusted=_dates_trusted, assumptions=_dates_assume)

PROPS["C04"] = Prop(
    rule="random admissible calendars (common working weekday, 1-3 members, 0-2 settlement calendars, holiday clusters "
         "around month ends) x month-end-biased dates x 5 modifiers x settlement flag; 8 named combinations "
         "(2000 random dates each quick; every date of the range thorough). non-trivial = the date moved",
    classify=_cls_c04, exhaustive=lambda tier: False, trusted=_dates_trusted, assumptions=_dates_assume)

PROPS["C05"] = Prop(
    rule="(calendar, start) pairs (random admissible calendars and named combinations) x ALL 256 i8 day counts for "
         "add_bus_days, lag and add_days, plus bus_date_range on random windows. non-trivial = accepted with n != 0",
    classify=_cls_c05, finding_key=_key_c05, exhaustive=lambda tier: False, trusted=_dates_trusted,
    assumptions=_dates_assume)

PROPS["C06"] = Prop(
    rule="name strings of 1-3 members and 0-2 settlement parts over the 14 built-in names in random ASCII case, each "
         "queried on random dates next to the explicit union of the same tables (model-free cross-check); malformed "
         "names; equality between calendars built equal / differing on one day / differing in settlement only",
    classify=_cls_c06, exhaustive=lambda tier: False, trusted=_dates_trusted + [
        "Rust's Unicode to_lowercase is modelled by lowerStr, exact on U+0000-U+00FF, U+0400-U+045F and U+212A, U+212B, U+2126, U+1E9E, U+023A, U+023E (swept by the C20 stream)",
        "the built-in tables reach the model through `defname` lines dumped from the running code"],
    assumptions=_dates_assume, oracle=C06Oracle(), allow_badop=True)


# ---------------------------------------------------------------------------------------------
# C07

import math
import gen_c07


def _cls_c07(t, impl):
    op = t[0]
    if op in ("rulehol", "partialhol"):
        return "%s:%s=%s" % (op, t[1], impl), impl == "1"
    if op == "fixbus":
        return "fixbus:%s:pub=%s" % (t[1], t[3]), True
    return op, True


def _cmp_c07(t, il, ml):
    if t[0] == "partialhol":
        # the documented rules only say which days MUST be holidays
        return not (ml == "1" and il != "1")
    return None


def _key_c07(t, il, ml):
    if t[0] in ("rulehol", "partialhol", "fixbus"):
        return "%s:%s:%s" % (t[0], t[1], t[2])
    return " ".join(t)


PROPS["C07"] = Prop(
    rule="exhaustive: every built-in name x every weekday date 1970-01-01..2200-12-31 (every date for 'all') against "
         "the published rules evaluated by the model; every documented name; every date of each of the nine fixing "
         "periods against the publication dates. non-trivial = a holiday / a date of a fixing period",
    classify=_cls_c07, exhaustive=lambda tier: True, regenerate=gen_c07.regenerate, compare_op=_cmp_c07,
    finding_key=_key_c07,
    trusted=["translator by execution: harness `dump tables` (get_calendar_by_name + is_weekday/is_holiday on all 84371 "
             "dates), docstring and CSV parsers in bin/lib/gen_c07.py",
             "transcription of the pandas rule scripts (lean/RateslibModel/Model/Holidays.lean) is part of the specification",
             "chrono's weekday/date arithmetic (cross-checked exhaustively by C08's run)"],
    assumptions=["holidays outside 1970-2200 are outside the property", "times of day not modelled"])


# ---------------------------------------------------------------------------------------------
# dual numbers

_dual_trusted = [
    "hand-written model of rust/dual/dual.rs and rust/dual/dual_ops/*.rs (lean/RateslibModel/Model/Dual.lean), tied to "
    "the code by the correspondence run; every owned/borrowed operand form of the auto_ops expansions is exercised",
    "ndarray / indexmap / Arc: modelled as lists, duplicate-free name lists and an explicit pointer-equality flag",
]
_dual_assume = ["f64 rounding is modelled, not verified: theorems are over commutative rings / fields (ℝ), the "
                "correspondence uses small dyadic rationals so that every f64 operation is exact and compares bit for bit",
                "NaN and infinities are outside the generators"]


def _kind_of(impl):
    return impl.split(" ", 1)[0] if impl else "?"


def _cls_c03(t, impl):
    if t[0] == "bin":
        return "bin:%s:%s" % (t[1], _kind_of(impl)), True
    if t[0] == "cmp":
        return "cmp:%s=%s" % (t[1], impl), True
    return None, False


def _cls_c17(t, impl):
    if t[0] in ("grad1", "grad2", "manifold", "manifoldprod"):
        return "%s:n=%d" % (t[0], len(t) - 2), len(t) > 2
    return None, False


def _oracle_c17(t, impl):
    """model-free: the product rule on manifolds must reproduce the manifold of the product"""
    if t[0] != "manifoldprod" or not impl.startswith("MP"):
        return None
    for seg in impl[2:].split(";"):
        if "=" not in seg:
            continue
        l, r = seg.split("=")
        lf = [f_of_hex(x) for x in l.split()]
        rf = [f_of_hex(x) for x in r.split()]
        if len(lf) != len(rf):
            return "shape mismatch between manifold of product and product rule"
        for a, b in zip(lf, rf):
            if not (a == b or abs(a - b) <= 1e-9 * max(abs(a), abs(b), 1.0)):
                return "manifold(a*b) = %r but product rule gives %r" % (a, b)
    return None


def f_of_hex(tok):
    import struct
    return struct.unpack(">d", bytes.fromhex(tok[1:]))[0]


def _cls_c18(t, impl):
    op = t[0]
    if op in ("numop", "numopf", "fnumop"):
        return "%s:%s:%s" % (op, t[1], _kind_of(impl)), True
    if op in ("cmp", "cmpf", "fcmp", "ncmp", "ncmpf", "fncmp"):
        return "%s:%s=%s" % (op, t[1], impl), True
    if op == "setord":
        return "setord:%s:%s" % (t[2], _kind_of(impl)), True
    if op in ("conv", "powc", "npowc", "tonum"):
        return "%s:%s" % (op, _kind_of(impl)), True
    if op == "un":
        return "un:%s:%s" % (t[1], _kind_of(impl)), True
    return None, False


def _cls_c19(t, impl):
    op = t[0]
    if op in ("cmp", "cmpf", "fcmp", "ncmp", "ncmpf", "fncmp"):
        return "%s:%s=%s" % (op, t[1], impl), True
    if op in ("un", "bin", "binf", "fbin"):
        return "%s:%s:%s" % (op, t[1], _kind_of(impl)), True
    if op == "sum":
        return "sum:%s:len=%d" % (t[1], len(t) - 2), len(t) > 3
    if op == "neut":
        return "neut:%s:%s" % (t[1], _kind_of(impl)), True
    if op in ("iszero", "isone", "sign"):
        return "%s=%s" % (op, impl), True
    return None, False


PROPS["C03"] = Prop(sort_names=True,
    rule="EXHAUSTIVE layouts: every ordered pair of duplicate-free variable lists over a pool of 3 (quick; 16x16) or 4 "
         "(thorough, 1/3 sample of 65x65) names x shared/unshared storage where the lists are equal x {+,-,*,%,==,!=} x "
         "{Dual, Dual2}, values small dyadic rationals (exact arithmetic, bit comparison of value, per-name gradient, "
         "per-name-pair Hessian, set of names, shapes); plus pairs equal by name under permutation and zero-padding. "
         "non-trivial = every op line",
    classify=_cls_c03, exhaustive=lambda tier: tier == "quick", trusted=_dual_trusted, assumptions=_dual_assume)

PROPS["C17"] = Prop(sort_names=True,
    rule="every stored order over a pool of 4 names (quick: 1/4 of the 65 stored lists; thorough: all) against ALL 65 "
         "requested duplicate-free lists for gradient1 (Dual and Dual2), gradient2 and gradient1_manifold; random Dual2 "
         "pairs for the manifold product rule (model-free oracle). non-trivial = non-empty request",
    classify=_cls_c17, mode="vexact", exhaustive=lambda tier: tier == "thorough", trusted=_dual_trusted,
    assumptions=_dual_assume, oracle=_oracle_c17)

PROPS["C18"] = Prop(sort_names=True,
    rule="EXHAUSTIVE over kind x kind x operator: 20 values (8 floats incl. +-0, 6 Dual, 6 Dual2, some sharing storage) "
         "all ordered pairs x {+,-,*,/,%} through the Number container, 6 comparisons, float on either side, "
         "set_order(_clone) to orders 0/1/2 with 5 name lists, From conversions; negation, abs, signum and Pow<f64> both "
         "on the contained type and on the container itself, owned and borrowed; refusal observed via catch_unwind",
    classify=_cls_c18, mode="vexact", exhaustive=lambda tier: True, trusted=_dual_trusted, assumptions=_dual_assume)

PROPS["C19"] = Prop(sort_names=True,
    rule="random Dual/Dual2 pairs over all layouts of a 3-name pool with all sign combinations: 6 comparisons, float "
         "comparisons on both sides, abs, signum, % in the three operand forms, zero/one neutrality, sums of length 0..8 "
         "(typed and through Number), the LIBRARY'S OWN zero and one elements (Zero::zero, One::one, is_zero, is_one) "
         "on either side of + and *, typed and through Number, the sign tests is_positive / is_negative (sign bit); once per run all 7 x 7 pairs of {0, -0, NaN, +-inf, +-1.5} for both types through "
         "every comparison form (IEEE order is not total there). non-trivial = every op line",
    classify=_cls_c19, mode="vexact", exhaustive=lambda tier: False, trusted=_dual_trusted, assumptions=_dual_assume)


def _cls_formula(t, impl):
    if t[0] not in ("eval", "evalgrad2"):
        return None, False
    ops = [x for x in t[1:] if not (x.startswith("L") or x.startswith("K"))]
    leaves = [x for x in t[1:] if x.startswith("L")]
    kind = _kind_of(impl) if t[0] == "eval" else "E2"
    depthish = min(len(ops), 12)
    return "%s:%s:ops=%d" % (t[0], kind, depthish), len(ops) >= 2 and len(leaves) >= 2


_formula_rule = ("random formulas (depth 1-6) over + - * / neg pow exp log ncdf nicdf abs on 1-5 leaves (dual numbers with 0-4 "
                 "names from a pool of 6, some sharing storage; floats; constants on either side), values steered inside the "
                 "differentiable domain, owned/borrowed operand forms varied by position; probes of pow at base exactly 0 with "
                 "exponents 0..3; compared close-float (1e-9 relative, absolute part relative to the sum of the absolute values "
                 "of the terms of each derivative; variables in name order): value, gradient by name%s. non-trivial = >= 2 "
                 "operators and >= 2 dual leaves")

PROPS["C01"] = Prop(rule=_formula_rule % "", classify=_cls_formula, mode="close", cond_rescue=True, sort_names=True, exhaustive=lambda tier: False,
                    trusted=_dual_trusted + ["statrs erfc/erfc_inv ported to Lean Float for the driver; Φ, Φ⁻¹ abstract in the theorems",
                                             "glibc exp/log/pow on both sides"],
                    assumptions=_dual_assume + ["theorems hold where the formula is differentiable (Dom)"])
_C02_LEAVES = {}


def _plain_eval(toks, leaves):
    """value of a prefix formula in plain doubles; returns (value, rest, ok) where ok is False as soon as an
    intermediate result is non-finite or an operator is applied outside its differentiable domain"""
    import math
    from statistics import NormalDist
    h, rest = toks[0], toks[1:]
    if h[0] == "L":
        v = leaves.get(h[1:])
        return (v, rest, v is not None and math.isfinite(v))
    if h[0] == "K":
        v = f_of_hex(h[1:])
        return (v, rest, math.isfinite(v))
    try:
        if h in ("+", "-", "*", "/", "%"):
            a, rest, oka = _plain_eval(rest, leaves)
            b, rest, okb = _plain_eval(rest, leaves)
            if not (oka and okb):
                return (float("nan"), rest, False)
            if h in ("/", "%") and b == 0:
                return (float("nan"), rest, False)
            v = {"+": a + b, "-": a - b, "*": a * b, "/": a / b if h == "/" else 0.0,
                 "%": math.fmod(a, b) if h == "%" else 0.0}[h]
            return (v, rest, math.isfinite(v))
        if h[0] == "p":
            e = f_of_hex(h[1:])
            a, rest, ok = _plain_eval(rest, leaves)
            if not ok or (a < 0 and e != int(e)):
                return (float("nan"), rest, False)
            if a == 0:
                # x^e is smooth at 0 exactly for e = 0, 1, 2, ... (this keeps the recorded finding
                # Dual2::pow(x, 1.0) at 0 inside the oracle's domain)
                return (0.0 if e > 0 else 1.0, rest, e == int(e) and e >= 0)
            v = a ** e
            # the true derivatives e a^(e-1), e (e-1) a^(e-2) must be representable too
            return (v, rest, all(math.isfinite(x) for x in (v, a ** (e - 1), a ** (e - 2))))
        a, rest, ok = _plain_eval(rest, leaves)
        if not ok:
            return (float("nan"), rest, False)
        if h in ("n", "N"):
            v = -a
        elif h == "e":
            v = math.exp(a)
        elif h == "l":
            if a <= 0:
                return (float("nan"), rest, False)
            v = math.log(a)
        elif h == "c":
            v = 0.5 * math.erfc(-a / math.sqrt(2.0))
        elif h == "q":
            if not (0.0 < a < 1.0):
                return (float("nan"), rest, False)
            v = NormalDist().inv_cdf(a)
        elif h == "a":
            if a == 0:
                return (float("nan"), rest, False)
            v = abs(a)
        else:
            return (float("nan"), rest, False)
        return (v, rest, math.isfinite(v))
    except (OverflowError, ValueError, ZeroDivisionError):
        return (float("nan"), toks[1:], False)


def _merge(a, b, fa=1.0, fb=1.0):
    out = {k: fa * v for k, v in a.items()}
    for k, v in b.items():
        out[k] = out.get(k, 0.0) + fb * v
    return out


def _outer(a, b):
    out = {}
    for x, vx in a.items():
        for y, vy in b.items():
            out[(x, y)] = out.get((x, y), 0.0) + vx * vy
            out[(y, x)] = out.get((y, x), 0.0) + vx * vy
    return out


def _bound_eval(toks, leaves):
    """magnitude bounds for a prefix formula on dual-number leaves: returns (value, B1, B2, rest, ok) where
    B1[name] / B2[(n, m)] bound the sum of the ABSOLUTE values of the terms that make up the first / second
    derivative - the scale against which a rounding-level difference of that derivative has to be judged when the
    terms cancel.  Plain doubles; ok is False outside the differentiable domain or on overflow."""
    import math
    from statistics import NormalDist
    h, rest = toks[0], toks[1:]
    if h[0] == "L":
        lf = leaves.get(h[1:])
        if lf is None or not math.isfinite(lf[0]):
            return (float("nan"), {}, {}, rest, False)
        return (lf[0], dict(lf[1]), dict(lf[2]), rest, True)
    if h[0] == "K":
        v = f_of_hex(h[1:])
        return (v, {}, {}, rest, math.isfinite(v))

    def chain(v, f1, f2, B1, B2):
        return (v, {k: f1 * x for k, x in B1.items()}, _merge(B2, _outer(B1, B1), f1, f2))

    try:
        if h in ("+", "-", "*", "/"):
            a, A1, A2, rest, oka = _bound_eval(rest, leaves)
            b, C1, C2, rest, okb = _bound_eval(rest, leaves)
            if not (oka and okb):
                return (float("nan"), {}, {}, rest, False)
            if h in ("+", "-"):
                v = a + b if h == "+" else a - b
                return (v, _merge(A1, C1), _merge(A2, C2), rest, math.isfinite(v))
            if h == "/":
                if b == 0:
                    return (float("nan"), {}, {}, rest, False)
                b, C1, C2 = chain(1.0 / b, 1.0 / (b * b), 2.0 / abs(b * b * b), C1, C2)
            v = a * b
            B1 = _merge(A1, C1, abs(b), abs(a))
            B2 = _merge(_merge(A2, C2, abs(b), abs(a)), _outer(A1, C1))
            return (v, B1, B2, rest, math.isfinite(v))
        if h[0] == "p":
            e = f_of_hex(h[1:])
            a, A1, A2, rest, ok = _bound_eval(rest, leaves)
            if not ok or a == 0 or (a < 0 and e != int(e)):
                return (float("nan"), {}, {}, rest, False)
            v, B1, B2 = chain(a ** e, abs(e * a ** (e - 1)), abs(e * (e - 1) * a ** (e - 2)), A1, A2)
            return (v, B1, B2, rest, math.isfinite(v))
        a, A1, A2, rest, ok = _bound_eval(rest, leaves)
        if not ok:
            return (float("nan"), {}, {}, rest, False)
        if h in ("n", "N"):
            return (-a, A1, A2, rest, True)
        if h == "e":
            x = math.exp(a)
            r = chain(x, x, x, A1, A2)
        elif h == "l":
            if a <= 0:
                return (float("nan"), {}, {}, rest, False)
            r = chain(math.log(a), 1.0 / a, 1.0 / (a * a), A1, A2)
        elif h == "c":
            pdf = math.exp(-0.5 * a * a) / math.sqrt(2.0 * math.pi)
            r = chain(0.5 * math.erfc(-a / math.sqrt(2.0)), pdf, abs(a) * pdf, A1, A2)
        elif h == "q":
            if not (0.0 < a < 1.0):
                return (float("nan"), {}, {}, rest, False)
            z = NormalDist().inv_cdf(a)
            f1 = math.sqrt(2.0 * math.pi) * math.exp(0.5 * z * z)
            r = chain(z, f1, abs(z) * f1 * f1, A1, A2)
        elif h == "a":
            if a == 0:
                return (float("nan"), {}, {}, rest, False)
            r = chain(abs(a), 1.0, 0.0, A1, A2)
        else:
            return (float("nan"), {}, {}, rest, False)
        return (r[0], r[1], r[2], rest, math.isfinite(r[0]))
    except (OverflowError, ValueError, ZeroDivisionError):
        return (float("nan"), {}, {}, toks[1:], False)


class _FormulaScale:
    """fed every op line in order; for a formula evaluation returns the largest magnitude bound of the value and
    of any first/second derivative (`_bound_eval`) - the scale of the absolute part of the tolerance"""

    def __init__(self):
        self.leaves = {}

    def feed(self, t):
        import math
        try:
            op = t[0]
            if op == "reset":
                self.leaves = {}
            elif op == "flt":
                self.leaves[t[1]] = (f_of_hex(t[2]), {}, {})
            elif op in ("dual", "dual2"):
                n = int(t[3])
                names = [t[4 + 2 * k] for k in range(n)]
                g = {names[k]: abs(f_of_hex(t[5 + 2 * k])) for k in range(n)}
                hs = {}
                if op == "dual2":
                    base = 4 + 2 * n
                    for i in range(n):
                        for j in range(n):
                            hs[(names[i], names[j])] = abs(f_of_hex(t[base + i * n + j]))
                self.leaves[t[1]] = (f_of_hex(t[2]), g, hs)
            elif op in ("eval", "evalgrad2"):
                v, B1, B2, _, ok = _bound_eval(t[1:], self.leaves)
                if ok:
                    m = max([abs(v)] + list(B1.values()) + list(B2.values()))
                    return m if math.isfinite(m) else 0.0
        except (ValueError, IndexError, KeyError, OverflowError):
            return 0.0
        return 0.0


PROPS["C01"].line_scale = _FormulaScale()


def _oracle_c02(t, impl):
    """model-free: the read-back Hessian is symmetric; the number converted down to first order has the
    same value and gradient; derivatives are finite whenever EVERY intermediate value of the formula is
    (a formula that overflows on the way, e.g. x / exp(800), is outside the property's domain: the
    plain-double re-evaluation below detects that and the line is then left to the model comparison)"""
    if t[0] in ("dual2", "dual", "flt") and len(t) >= 3:
        _C02_LEAVES[t[1]] = f_of_hex(t[2])
        return None
    if t[0] == "reset":
        _C02_LEAVES.clear()
        return None
    if t[0] != "evalgrad2" or not impl.startswith("E2 h"):
        return None
    try:
        _, rest, inside = _plain_eval(t[1:], _C02_LEAVES)
        inside = inside and not rest
    except (IndexError, RecursionError):
        inside = False
    if not inside:
        return None
    parts = impl.split("|")
    if len(parts) != 3:
        return None
    head = parts[0].split()
    k = int(head[2][1:])
    g1 = [f_of_hex(x) for x in head[3:]]
    h = [f_of_hex(x) for x in parts[1].split()]
    if len(h) != k * k or len(g1) != k:
        return "shape: gradient %d, Hessian %d entries for %d names" % (len(g1), len(h), k)
    import math
    val = f_of_hex(head[1])
    if math.isfinite(val) and any(not math.isfinite(x) for x in g1 + h):
        return "non-finite first or second derivative although the value is finite"
    for i in range(k):
        for j in range(i):
            a, b = h[i * k + j], h[j * k + i]
            if not (a == b or (a != a and b != b) or abs(a - b) <= 1e-9 * max(abs(a), abs(b)) + 1e-300):
                return "Hessian not symmetric: H[%d][%d]=%r H[%d][%d]=%r" % (i, j, a, j, i, b)
    down = parts[2].split()
    if down[0] == "D":
        if down[1] != head[1]:
            return "value changed on conversion to first order"
        dg = [f_of_hex(x) for x in down[5::2]]
        if len(dg) == k and any(x != y and not (x != x and y != y) for x, y in zip(dg, g1)):
            return "gradient changed on conversion to first order"
    return None


def _key_c02(t, il, ml):
    if t[0] == "evalgrad2" and len(t) <= 4:
        return " ".join(t)
    return t[0]


PROPS["C02"] = Prop(rule=_formula_rule % ", Hessian by name pair, gradient2 read-back, conversion down to first order",
                    classify=_cls_formula, mode="close", cond_rescue=True, sort_names=True, line_scale=_FormulaScale(), exhaustive=lambda tier: False, oracle=_oracle_c02,
                    finding_key=_key_c02,
                    trusted=_dual_trusted + ["statrs erfc/erfc_inv ported to Lean Float for the driver"],
                    assumptions=_dual_assume)


# ---------------------------------------------------------------------------------------------
# curves

def _cls_curve(t, impl):
    op = t[0]
    if op == "idxleft":
        return "idxleft:len=%s" % t[1], True
    if op == "cvvalue":
        return "cvvalue:" + _kind_of(impl), True
    if op in ("cvindex", "cvidxval", "cvnodes", "cvad", "cvorder"):
        k = impl.split(" ", 1)[0]
        return "%s:%s" % (op, k if op != "cvindex" else "idx"), op != "cvad"
    return None, False


_curve_trusted = [
    "hand-written model of rust/curves (lean/RateslibModel/Model/Curve.lean) tied to the code by the correspondence run "
    "through the verif_hooks wrappers of the Python-facing Curve",
    "indexmap ordering / sort_keys modelled as a stable insertion sort on distinct keys",
]

PROPS["C11"] = Prop(semantic_names=True, 
    rule="index_left EXHAUSTIVELY on all strictly increasing lists of length 2..6 (quick) / 2..9 (thorough) over a 9 / 12 "
         "point grid with all grid and half-grid query points; 500 (quick) random curves per run over the 5 rules, 2-40 "
         "nodes, spacing 1 day..30 years, random supply order, queried at every node date and both neighbours, before, "
         "after and inside; node read-back; first node anywhere 1960..2024 (negative and 7-10 digit timestamps), one step in "
         "six keeps the node value (flat segments); every curve ALSO built directly through the public CurveDF::try_new "
         "from another shuffled order, queried before and after its own to_json/from_json. values bit-exact (the model "
         "mirrors the operation order). non-trivial = all",
    classify=_cls_curve, mode="close", exhaustive=lambda tier: False, trusted=_curve_trusted + _dual_trusted[:1],
    # the node read-back of a directly built CurveDF goes through a mirror of its serialised form in the harness;
    # if that mirror no longer parses the document (a renamed field, say) the harness is out of date, not the code
    correspondence_only=lambda t, il, ml: bool(t) and t[0] == "cvnodes" and il == "err",
    assumptions=_dual_assume)

PROPS["C12"] = Prop(semantic_names=True, 
    rule="random curves (5 rules x AD order 0/1/2 x with/without index base, some nodes supplied as dual numbers with "
         "their own variables) x random order-switch sequences of length 0..8; after every switch: order, node read-back "
         "(values, tags, sensitivities), look-ups and index values with gradients and Hessians by name; float-noded curves "
         "also built directly through CurveDF::try_new and taken through order switches interleaved with JSON round trips",
    classify=_cls_curve, mode="close", exhaustive=lambda tier: False, trusted=_curve_trusted + _dual_trusted[:1],
    # the node read-back of a directly built CurveDF goes through a mirror of its serialised form in the harness;
    # if that mirror no longer parses the document (a renamed field, say) the harness is out of date, not the code
    correspondence_only=lambda t, il, ml: bool(t) and t[0] == "cvnodes" and il == "err",
    assumptions=_dual_assume)


# ---------------------------------------------------------------------------------------------
# FX

def _parse_num(tok_iter_list):
    """parse one formatted Number starting at index 0 of a token list; returns (kind, real, {name: grad})"""
    t = tok_iter_list
    if not t:
        return None
    if t[0] == "F":
        return ("F", f_of_hex(t[1]), {})
    if t[0] in ("D", "D2"):
        real = f_of_hex(t[1])
        grads = {}
        i = 4 if t[0] == "D" else 6
        while i + 1 < len(t) and t[i] != "|":
            grads[t[i]] = f_of_hex(t[i + 1])
            i += 2
        return (t[0], real, grads)
    return None


def _cls_fx(t, impl):
    op = t[0]
    if op == "fx":
        return "fx:n=%s:%s" % (t[3], impl), True
    if op in ("fxrate", "fxrateq"):
        return op + ":" + _kind_of(impl), True
    if op in ("fxupdate", "fxorder"):
        return "%s:%s" % (op, impl), True
    if op in ("fxdump", "fxad"):
        return op, True
    return None, False


def _oracle_fx(t, impl):
    """model-free, on the implementation's own matrix: diagonal 1, rate x inverse = 1, triangle law,
    and every first-order sensitivity to a plain-number quote fx_abc is 0 or +-rate/quote"""
    if t[0] != "fxdump" or not impl.startswith("M "):
        return None
    head, *cells = [c.strip() for c in impl.split(";")]
    ht = head.split()
    n = int(ht[1])
    ccys = ht[2:2 + n]
    if len(cells) != n * n:
        return "matrix has %d cells for %d currencies" % (len(cells), n)
    nums = [_parse_num(c.split()) for c in cells]
    if any(x is None for x in nums):
        return "incomplete matrix"
    R = lambda i, j: nums[i * n + j][1]
    tol = 1e-9
    for i in range(n):
        if R(i, i) != 1.0:
            return "%s against itself is %r" % (ccys[i], R(i, i))
        for j in range(n):
            if abs(R(i, j) * R(j, i) - 1.0) > tol:
                return "rate x inverse = %r for %s/%s" % (R(i, j) * R(j, i), ccys[i], ccys[j])
            for k in range(n):
                if abs(R(i, j) * R(j, k) - R(i, k)) > tol * max(1.0, abs(R(i, k))):
                    return "triangle law fails for %s %s %s" % (ccys[i], ccys[j], ccys[k])
    idx = {c: i for i, c in enumerate(ccys)}
    for i in range(n):
        for j in range(n):
            kind, real, grads = nums[i * n + j]
            for name, g in grads.items():
                if name.startswith("fx_") and len(name) == 9 and name[3:6] in idx and name[6:9] in idx:
                    x = R(idx[name[3:6]], idx[name[6:9]])
                    want = real / x
                    if not (abs(g) <= tol * abs(want) or abs(abs(g) - abs(want)) <= 1e-7 * abs(want)):
                        return "d %s%s / d %s = %r, expected 0 or +-%r" % (ccys[i], ccys[j], name, g, want)
    return None


class _FxOracle:
    """the stateless matrix laws of `_oracle_fx` plus, statefully over the stream, the three things C09/C10 demand
    EXACTLY (they are judged on the implementation's own answers, so the correspondence itself can compare derived
    rates with a tolerance): a quoted pair is returned exactly as quoted; a currency against itself is exactly 1;
    a derivative-order switch changes no rate's value by a single bit"""
    stateful = True

    def __init__(self):
        self.reset()

    def reset(self):
        self.q, self.last, self.state, self.duals = {}, {}, {}, {}

    @staticmethod
    def _matrix(impl):
        head, *cells = [c.strip() for c in impl.split(";")]
        ht = head.split()
        n = int(ht[1])
        ccys = ht[2:2 + n]
        if len(cells) != n * n:
            return None
        nums = [_parse_num(c.split()) for c in cells]
        if any(x is None for x in nums):
            return None
        return {(ccys[i], ccys[j]): nums[i * n + j][1] for i in range(n) for j in range(n)}

    def _quotes(self, toks):
        out = {}
        for k in range(0, len(toks) - 3, 4):
            l, r, v = toks[k], toks[k + 1], toks[k + 2]
            if v.startswith("F"):
                out[(l, r)] = f_of_hex(v[1:])
            elif v.startswith("H"):
                out[(l, r)] = self.duals.get(v[1:])
            else:
                out[(l, r)] = None
        return out

    def __call__(self, t, impl):
        why = _oracle_fx(t, impl)
        if why:
            return why
        op = t[0]
        try:
            if op == "reset":
                self.reset()
            elif op == "dual" and len(t) > 2 and len(t[2]) == 17 and t[2][0] == "h":
                self.duals[t[1]] = f_of_hex(t[2])
            elif op == "dual2" and len(t) > 2 and len(t[2]) == 17 and t[2][0] == "h":
                self.duals[t[1]] = f_of_hex(t[2])
            elif op == "fx" and impl == "ok":
                h = t[1]
                self.q[h] = self._quotes(t[4:])
                self.last.pop(h, None)
                self.state[h] = "fresh"
            elif op == "fxupdate" and impl == "ok":
                h = t[1]
                if h in self.q:
                    self.q[h].update(self._quotes(t[3:]))
                self.state[h] = "updated"
            elif op == "fxorder" and impl == "ok":
                h = t[1]
                if self.state.get(h) == "dumped":
                    self.state[h] = "switched"
            elif op == "fxrateq" and impl.split()[:1] and impl.split()[0] in ("F", "D", "D2"):
                h, l, r = t[1], t[2], t[3]
                p = _parse_num(impl.split())
                if p is not None:
                    if l == r and p[1] != 1.0:
                        return "%s against itself is %r" % (l, p[1])
                    v = self.q.get(h, {}).get((l, r))
                    if v is not None and p[1] != v:
                        return "quoted pair %s%s returned as %r, quoted %r" % (l, r, p[1], v)
            elif op == "fxdump" and impl.startswith("M "):
                h = t[1]
                m = self._matrix(impl)
                if m is None:
                    return None
                for (l, r), v in self.q.get(h, {}).items():
                    if v is not None and (l, r) in m and m[(l, r)] != v:
                        return "quoted pair %s%s returned as %r, quoted %r" % (l, r, m[(l, r)], v)
                if self.state.get(h) == "switched" and h in self.last:
                    for k, v in self.last[h].items():
                        if k in m and m[k] != v and not (math.isnan(v) and math.isnan(m[k])):
                            return ("the value of %s/%s changed from %r to %r on a derivative-order switch"
                                    % (k[0], k[1], v, m[k]))
                self.last[h] = m
                self.state[h] = "dumped"
        except (ValueError, IndexError, KeyError):
            return None
        return None


_fx_trusted = [
    "hand-written model of rust/fx/rates/mod.rs (lean/RateslibModel/Model/FX.lean): arrays as functions with functional "
    "update, the recursion with fuel (n^2+1)(n+1)+1; tied to the code by the correspondence run",
    "derived rates, gradients and Hessians are compared with the tolerance of the *close* rule (C09 speaks of them 'up to "
    "floating-point rounding'); what C09/C10 demand exactly - quoted pairs as quoted, self rates 1, no value changed by a "
    "derivative-order switch - is judged bit for bit on the implementation's own answers by a stateful model-free oracle",
]

PROPS["C09"] = Prop(semantic_names=True, 
    rule="random labelled trees by Prüfer sequences on n = 2..12 currencies, random orientation and quote order, random "
         "base (or none), rates log-uniform 1e-2..1e2, with/without settlement; the same quotes re-ordered with another "
         "base; malformed stream (missing / inverted duplicate / duplicate / cycle / mixed settlement). compared: ok/err, "
         "every rate, full matrix; model-free oracle on the implementation's matrix (diagonal, inverse, triangle law)",
    classify=_cls_fx, mode="close", modes={"fxrateq": "exact"}, exhaustive=lambda tier: False, trusted=_fx_trusted,
    assumptions=_dual_assume, oracle=_FxOracle(), allow_badop=True)

PROPS["C10"] = Prop(semantic_names=True, 
    rule="markets as C09 (n = 2..8, some quotes given as dual numbers with own variables) + histories of 0..12 ops (quote "
         "updates of subsets, updates naming unknown/inverted pairs, order switches 0/1/2); after every op: order, full "
         "matrix with gradients and Hessians by name, and a market built directly from the latest quotes; model-free "
         "oracle: every sensitivity to fx_abc is 0 or +-rate/quote",
    classify=_cls_fx, mode="close", modes={"fxrateq": "exact"}, exhaustive=lambda tier: False, trusted=_fx_trusted,
    assumptions=_dual_assume, oracle=_FxOracle())


# ---------------------------------------------------------------------------------------------
# linear solver

def _cls_c13(t, impl):
    if t[0] != "solve":
        return None, False
    return "solve:%s:%sx%s:lsq=%s:%s" % (t[1], t[2], t[3], t[4], impl.split(" ", 1)[0]), impl.startswith("X ")


PROPS["C13"] = Prop(semantic_names=True, 
    rule="random well-conditioned systems of size 1..8 (tall up to 12 rows for least squares), entries float / Dual / "
         "Dual2 in the pairings the API allows (dsolve: same kind for A and b; fdsolve: float A with Dual/Dual2 b), zero "
         "patterns forcing row swaps in first/middle/last columns, ties in |pivot| (last maximum), random tagging; each "
         "square system also solved with its rows permuted; compared: solution values, gradients and Hessians by name",
    classify=_cls_c13, mode="close", rtol=1e-7, exhaustive=lambda tier: False,
    trusted=["hand-written model of rust/dual/linalg/linalg_dual.rs and linalg_f64.rs (lean/RateslibModel/Model/Linalg.lean: "
             "matrices as functions, loops as folds), tied to the code by the correspondence run"] + _dual_trusted[:1],
    assumptions=_dual_assume + ["conditioning / rounding not modelled; NaN handling outside the generators"])


# ---------------------------------------------------------------------------------------------
# splines

def _cls_spl(t, impl):
    op = t[0]
    if op == "bsplev":
        return "bsplev:k=%s" % t[3], impl not in ("h0000000000000000", "h8000000000000000")
    if op == "bspldnev":
        return "bspldnev:k=%s:m=%s" % (t[3], t[4]), impl not in ("h0000000000000000", "h8000000000000000")
    if op == "basisrow":
        return "basisrow:k=%s" % t[2], True
    if op in ("ppev", "ppevpoly"):
        return "%s:m=%s:%s" % (op, t[2], _kind_of(impl)), True
    if op in ("csolve", "spline", "spc"):
        return "%s:%s" % (op, impl.split(" ", 1)[0]), True
    return None, False


def _oracle_c14(t, impl):
    """model-free: inside the domain the basis is non-negative and sums to one; outside it vanishes"""
    if t[0] != "basisrow" or not impl.startswith("B"):
        return None
    x = f_of_hex(t[1])
    k = int(t[2])
    knots = [f_of_hex(h) for h in t[4:]]
    vals = [f_of_hex(h) for h in impl.split()[1:]]
    if any(v < 0 for v in vals):
        return "negative basis value %r" % min(vals)
    for i, v in enumerate(vals):
        if v != 0 and not (knots[i] <= x <= knots[i + k]):
            return "basis function %d is %r outside its support" % (i, v)
    inside = knots[0] <= x <= knots[-1]
    s = sum(vals)
    if inside and abs(s - 1.0) > 1e-9:
        return "basis sums to %r at x=%r inside the domain" % (s, x)
    if not inside and s != 0:
        return "basis does not vanish outside the domain"
    return None


def _oracle_c15(t, impl):
    """model-free: a spline solved on polynomial data of degree < k reproduces the polynomial and its derivatives"""
    if t[0] != "ppevpoly":
        return None
    want = f_of_hex(t[4])
    tk = impl.split()
    if tk[0] == "F":
        got = f_of_hex(tk[1])
    elif tk[0] in ("D", "D2"):
        got = f_of_hex(tk[1])
    else:
        return None
    if abs(got - want) > 1e-7 * max(1.0, abs(want)):
        return "spline gives %r, polynomial gives %r" % (got, want)
    return None


_spl_trusted = [
    "hand-written model of rust/splines/spline.rs (lean/RateslibModel/Model/Spline.lean), tied to the code by the "
    "correspondence run; csolve uses the fdsolve model of C13",
]

PROPS["C14"] = Prop(semantic_names=True, segment_scale=True, 
    rule="orders 1..6, knot vectors with k-fold end knots and 0..5 interior positions of multiplicity 1..min(k-1,3) on a "
         "dyadic grid; every basis index, m = 0..k, evaluated at every knot, both end points, span midpoints, random points "
         "and outside points; plus whole basis rows for the model-free oracle (non-negative, local support, sum = 1)",
    classify=_cls_spl, mode="close", exhaustive=lambda tier: False, trusted=_spl_trusted, oracle=_oracle_c14,
    assumptions=["f64 rounding modelled (theorems over ordered fields)"])

PROPS["C15"] = Prop(semantic_names=True, segment_scale=True, 
    rule="orders 2..6, simple interior knots, sites = Greville abscissae (plain interpolation) or knots with 2nd-derivative "
         "end conditions (natural cubic), data polynomial of degree < k or random, float / Dual / Dual2 data each tagged with "
         "its own variable; coefficients, values and derivatives m = 0..3 at sites, knots, end points and a grid; dual and "
         "dual2 abscissae; mismatched site counts; model-free oracle: polynomial reproduction",
    classify=_cls_spl, mode="close", rtol=1e-7, exhaustive=lambda tier: False, trusted=_spl_trusted, oracle=_oracle_c15,
    assumptions=["non-singularity of the collocation matrix (Schoenberg-Whitney) is a generator precondition",
                 "f64 rounding modelled"])


# ---------------------------------------------------------------------------------------------
# save / load

def _cls_c16(t, impl):
    op = t[0]
    if op == "ser":
        return "ser:%s" % t[1], impl.startswith("B ")
    if op == "rt":
        return "rt:%s:%s" % (t[1], impl.split(" ", 1)[0]), True
    if op == "f64json":
        return "f64json:" + impl.split(" ", 1)[0], True
    if op == "written":
        return "written:" + " ".join(impl.split()[1:3]), True
    return None, False


def _oracle_c16(t, impl):
    """model-free: a document written by the library's own to_json is loaded by its own tagged entry point"""
    if t[0] == "written" and not impl.endswith(" ok"):
        return "a document written by to_json is refused by from_json: %s" % impl
    return None


def _key_c16(t, il, ml):
    if t[0] == "rt":
        return "rt:%s:%s" % (t[1], il)
    if t[0] == "f64json":
        return "f64json:" + il.split(" ", 1)[0]
    return "%s:%s" % (t[0], t[1] if len(t) > 1 else "")


PROPS["C16"] = Prop(
    rule="per round: Dual and Dual2 with 0-4 names and ARBITRARY FINITE doubles (uniform over bit patterns, subnormals, +-0, "
         "extremes), Cal / UnionCal / NamedCal, an FX tree market (2-5 currencies, with/without settlement, at a random "
         "order), a curve (5 rules x 3 orders, with/without index base, node dates from 1960 on; also as a bare CurveDF through "
         "its own to_json/from_json with node read-back), a spline of each of the 3 types unsolved and solved, "
         "40 bare doubles. `ser`: bincode bytes of the implementation vs the bytes the Lean codec model predicts (exact). "
         "`rt`: model-free round trips on the real code - to_json/from_json, the tagged from_json entry point, bincode - "
         "with == and a query battery; `f64json`: the JSON text layer on a bare double",
    classify=_cls_c16, mode="exact", finding_key=_key_c16, oracle=_oracle_c16, exhaustive=lambda tier: False,
    # the model's bytes / the model's writer form differ from the code's while the code's own round trip holds:
    # the model no longer describes the format (correspondence), no property is violated by that alone
    correspondence_only=lambda t, il, ml: bool(t) and ((t[0] == "ser" and il.startswith("B ") and ml.startswith("B "))
                                                       or (t[0] == "written" and il.endswith(" ok"))
                                                       or (t[0] == "cvnodes" and il == "err")),
    trusted=["Lean model of the bincode 1.3 wire format and of serde's derive layout for Dual, Dual2, Number, PPSpline, "
             "NamedCal, FXRates, Curve (lean/RateslibModel/Model/Serde.lean), tied to the code by byte-exact comparison",
             "serde, serde_json, ryu, bincode, chrono's and ndarray's serde impls: implementation trusted; validated by "
             "the byte comparison and the model-free round trips only"],
    assumptions=["non-finite floats are outside the property", "Cal/UnionCal bytes depend on hash order: round trip and "
                 "queries only, no byte comparison", "JSON tree level is not modelled in Lean: model-free round trips only"])


# ---------------------------------------------------------------------------------------------
# C20: fallible entry points

def _nclass(n):
    n = int(n)
    if n in (-128, 127, 0):
        return str(n)
    return "neg" if n < 0 else "pos"


def _cls_c20(t, impl):
    op = t[0]
    head = impl.split(" ", 2)
    if op in ("loadjson", "loadjsonx", "loadtyped"):
        return op.rstrip("x") + ":" + (" ".join(head[:2]) if head[0] == "ok" else head[0]), True
    if op in ("adddays", "addbus", "lag"):
        return "%s:n=%s:%s" % (op, _nclass(t[3]), "err" if impl == "err" else "date"), True
    if op == "addmonths":
        return "addmonths:roll=%s" % (t[5][0]), True
    if op == "roll":
        return "roll:" + t[3], True
    if op in ("trydual", "trydual2", "ccy", "fxpair", "named", "fx", "csolve"):
        return "%s:%s" % (op, head[0]), True
    if op == "spshape":
        return "spshape:c=" + ("none" if impl.endswith("c=-") else "set"), True
    return None, False


def _kv(impl):
    d = {}
    for tok in impl.split():
        if "=" in tok:
            k, v = tok.split("=", 1)
            d[k] = v
    return d


def _oracle_c20(t, impl):
    """model-free: no entry point aborts, and whatever is returned satisfies its type's shape invariants"""
    op = t[0]
    if impl in ("panic", "abort"):
        return "%s: the call %s" % (op, "panicked" if impl == "panic" else "ABORTED the process")
    if op in ("adddays", "lag", "addmonths", "roll"):
        try:
            int(impl)
        except ValueError:
            return "%s did not return a date: %r" % (op, impl)
    if op == "addbus" and impl != "err":
        try:
            int(impl)
        except ValueError:
            return "addbus returned neither a date nor an error: %r" % impl
    kv = _kv(impl)
    if op == "trydual" and impl.startswith("ok") and kv["v"] != kv["d"]:
        return "Dual::try_new accepted %s names with %s sensitivities" % (kv["v"], kv["d"])
    if op == "trydual2" and impl.startswith("ok"):
        if kv["v"] != kv["d"] or kv["h"] != "%sx%s" % (kv["v"], kv["v"]):
            return "Dual2::try_new returned an inconsistent shape: %s" % impl
    if op == "ccy" and impl.startswith("ok "):
        name = b"" if impl[3:] == "-" else bytes.fromhex(impl[3:])
        if len(name) != 3 or name != name.lower():
            return "Ccy::try_new returned %r" % name
    if op == "fxpair" and impl.startswith("ok "):
        name = bytes.fromhex(impl[3:])
        if len(name) != 6 or name[:3] == name[3:]:
            return "FXPair::try_new returned %r" % name
    if op == "spshape":
        if int(kv["n"]) != int(kv["t"]) - int(kv["k"]) or kv["c"] not in ("-", kv["n"]):
            return "spline shape invariant broken after csolve: %s" % impl
    if op in ("loadjson", "loadjsonx", "loadtyped") and impl.startswith("ok "):
        kind = impl.split()[1]
        if kind == "Dual" and kv["v"] != kv["d"]:
            return "loaded a Dual with %s names and %s sensitivities" % (kv["v"], kv["d"])
        if kind == "Dual2" and (kv["v"] != kv["d"] or kv["h"] != "%sx%s" % (kv["v"], kv["v"])):
            return "loaded a Dual2 of inconsistent shape: %s" % impl
        if kind.startswith("PPSpline"):
            if int(kv["t"]) < 2 or int(kv["n"]) != int(kv["t"]) - int(kv["k"]) or kv["c"] not in ("-", kv["n"]):
                return "loaded a spline of inconsistent shape: %s" % impl
        if kind == "FXRates":
            names = [bytes.fromhex(x) for x in kv["c"].split(",") if x and x != "-"]
            if len(names) != int(kv["q"]) + 1:
                return "loaded an FX market with %s quotes and %d currencies" % (kv["q"], len(names))
            if any(len(x) != 3 or x != x.lower() for x in names):
                return "loaded an FX market with a malformed currency: %r" % names
    return None


def _cmp_c20(t, il, ml):
    # (kept for old replays: a model that does not cover a document answers `unmodelled`)
    if t and t[0] in ("loadjson", "loadjsonx") and ml == "unmodelled":
        return True
    return None


def _key_c20(t, il, ml):
    if t[0] in ("loadjson", "loadjsonx"):
        return "loadjson:" + t[1][:64]
    if t[0] == "loadtyped":
        return "loadtyped:" + t[1] + ":" + t[2][:64]
    return " ".join(t[:6])


PROPS["C20"] = Prop(
    rule="per round: a random Cal (mask never all seven days), a UnionCal with/without settlement, a NamedCal; ALL 256 "
         "8-bit day counts through add_days / add_bus_days / lag (rotating), the extremes through all three; add_months "
         "with every roll day 1..31 and eom/som/imm/unspecified at offsets landing anywhere in 1970-02..2200-11 (both "
         "ends hit); roll; Dual/Dual2::try_new with mismatched and duplicated names; Ccy/FXPair/NamedCal::try_new on "
         "ASCII and non-ASCII strings (once per run: every code point of U+0000-U+00FF and U+0400-U+045F in a 3-byte code, "
         "alone and paired with its lower-cased spelling); FXRates::try_new on trees, cycles, repeats and mixed settlement; csolve on "
         "regular, singular (zero matrix, repeated sites), non-finite and mismatched systems; ~320 JSON documents built "
         "by the library's own to_json for every tagged type and mutated 0-3 times (delete / duplicate / rename / add a "
         "field, object<->array, replace or perturb values, drop / repeat / swap elements), plus non-JSON texts. "
         "Every call runs under catch_unwind; JSON loading runs in a worker process so that an abort is an outcome",
    classify=_cls_c20, mode="exact", finding_key=_key_c20, oracle=_oracle_c20, compare_op=_cmp_c20,
    correspondence_only=lambda t, il, ml: bool(t) and t[0] in ("loadjson", "loadjsonx", "loadtyped")
    and il not in ("panic", "abort", "bad-op") and (il == "err" or ml == "err"),
    exhaustive=lambda tier: False,
    def_ops=DEF_OPS,
    trusted=["Lean model of serde's derived visitors, ndarray's visitor and the validating data models "
             "(lean/RateslibModel/Model/Load.lean), tied to the code by outcome-and-shape comparison on mutated documents",
             "JSON tokenizer of the driver (lean/Driver/Json.lean): outside the theorems, validated by the same comparison",
             "chrono's date/weekday text parsing is modelled only for the spellings the library itself writes"],
    assumptions=["calendars have at least one working weekday (an all-seven-day mask makes every adjustment loop forever)",
                 "JSON numbers are exactly representable doubles (knot order is compared exactly)",
                 "Rust's Unicode lower-casing is modelled exactly on U+0000-U+00FF, U+0400-U+045F and U+212A, U+212B, U+2126, U+1E9E, U+023A, U+023E (every code point swept on "
                 "every run); generated strings have no cased letters outside those ranges",
                 "object keys of a curve's node map carry no JSON escapes (serde_json reads an i64 key from the raw text)"])
