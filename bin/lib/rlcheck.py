"""Verification driver for attack68/rateslib: build, proof audit, correspondence, evidence.

Standard library only.  See /verif/DESIGN.md §1.
"""
import fcntl, hashlib, json, math, os, re, shutil, struct, subprocess, sys, time

VERIF = os.path.dirname(os.path.dirname(os.path.dirname(os.path.abspath(__file__))))
REPO = os.environ.get("VERIF_REPO", "/repo")
BUILD = os.path.join(VERIF, ".build")
HARNESS_DIR = os.path.join(VERIF, "harness")
HARNESS_BIN = os.path.join(BUILD, "target", "release", "rl_harness")
LEAN_DIR = os.path.join(VERIF, "lean")
DRIVER = os.path.join(LEAN_DIR, ".lake", "build", "bin", "driver")
ALLOWED_AXIOMS = {"propext", "Classical.choice", "Quot.sound"}
ENV = dict(os.environ, CARGO_NET_OFFLINE="true")

import props as P  # per-property configuration (bin/lib/props.py)


# --------------------------------------------------------------------------------------------
# utilities

class Lock:
    def __init__(self, name):
        os.makedirs(BUILD, exist_ok=True)
        self.path = os.path.join(BUILD, name)

    def __enter__(self):
        self.f = open(self.path, "w")
        fcntl.flock(self.f, fcntl.LOCK_EX)
        return self

    def __exit__(self, *a):
        fcntl.flock(self.f, fcntl.LOCK_UN)
        self.f.close()


def sh(cmd, cwd=None, timeout=None, stdin=None, stdout=None):
    return subprocess.run(cmd, cwd=cwd, env=ENV, timeout=timeout, stdin=stdin,
                          stdout=stdout if stdout is not None else subprocess.PIPE,
                          stderr=subprocess.STDOUT if stdout is None else subprocess.PIPE,
                          text=(stdout is None))


def sha256_file(path):
    h = hashlib.sha256()
    try:
        with open(path, "rb") as f:
            for chunk in iter(lambda: f.read(1 << 20), b""):
                h.update(chunk)
        return h.hexdigest()
    except OSError:
        return None


def f_of_hex(tok):
    return struct.unpack(">d", bytes.fromhex(tok[1:]))[0]


def is_float_tok(t):
    return len(t) == 17 and t[0] == "h"


def floats_close(a, b, scale, rtol, atol_rel):
    if a == b:
        return True
    if math.isnan(a) and math.isnan(b):
        return True
    if math.isnan(a) or math.isnan(b) or math.isinf(a) or math.isinf(b):
        return False
    return abs(a - b) <= rtol * max(abs(a), abs(b)) + atol_rel * scale


def _is_zero(tok):
    return is_float_tok(tok) and f_of_hex(tok) == 0.0   # +0.0 and -0.0

def canon_numbers(line):
    """drop, from every dual number printed on the line, the variables whose first derivative and whole
    Hessian row and column are zero (the property treats a missing variable and a zero derivative as the
    same thing), and the shape counters that depend on them"""
    t = line.split()
    out = []
    i = 0
    n = len(t)
    while i < n:
        tok = t[i]
        try:
            if tok == "D" and i + 3 < n and is_float_tok(t[i + 1]) and t[i + 2][0] == "v" and t[i + 3][0] == "d":
                v = int(t[i + 2][1:]); d = int(t[i + 3][1:])
                if v == d and i + 4 + 2 * v <= n:
                    pairs = [(t[i + 4 + 2 * k], t[i + 5 + 2 * k]) for k in range(v)]
                    if all(is_float_tok(p[1]) for p in pairs):
                        keep = [p for p in pairs if not _is_zero(p[1])]
                        out += ["D", t[i + 1]] + [x for p in keep for x in p]
                        i += 4 + 2 * v
                        continue
            if tok == "D2" and i + 5 < n and is_float_tok(t[i + 1]) and t[i + 2][0] == "v" and t[i + 3][0] == "d" \
                    and t[i + 4][0] == "r" and t[i + 5][0] == "c":
                v = int(t[i + 2][1:]); d = int(t[i + 3][1:]); r = int(t[i + 4][1:])
                cs = t[i + 5][1:].split("-")
                if v == d == r and all(int(c) == v for c in cs):
                    j = i + 6
                    if j + 2 * v < n + 1 and (j + 2 * v < n and t[j + 2 * v] == "|") and j + 2 * v + 1 + v * v <= n:
                        pairs = [(t[j + 2 * k], t[j + 1 + 2 * k]) for k in range(v)]
                        h = t[j + 2 * v + 1: j + 2 * v + 1 + v * v]
                        if all(is_float_tok(p[1]) for p in pairs) and all(is_float_tok(x) for x in h):
                            keepi = [k for k in range(v) if not (_is_zero(pairs[k][1]) and
                                     all(_is_zero(h[k * v + m]) and _is_zero(h[m * v + k]) for m in range(v)))]
                            out += ["D2", t[i + 1]] + [x for k in keepi for x in pairs[k]] + ["|"] + \
                                   [h[a * v + b] for a in keepi for b in keepi]
                            i = j + 2 * v + 1 + v * v
                            continue
        except (ValueError, IndexError):
            pass
        out.append(tok)
        i += 1
    return " ".join(out)


def _parse_num(t, i):
    """parse one printed dual number starting at token i: returns (kind, real, names, grad, hess, next_i) or None"""
    n = len(t)
    try:
        if t[i] == "D" and i + 3 < n and is_float_tok(t[i + 1]) and t[i + 2][0] == "v" and t[i + 3][0] == "d":
            v = int(t[i + 2][1:]); d = int(t[i + 3][1:])
            if v == d and i + 4 + 2 * v <= n:
                pairs = [(t[i + 4 + 2 * k], t[i + 5 + 2 * k]) for k in range(v)]
                if all(is_float_tok(p[1]) for p in pairs):
                    return ("D", t[i + 1], [p[0] for p in pairs], [p[1] for p in pairs], None, i + 4 + 2 * v)
        if t[i] == "D2" and i + 5 < n and is_float_tok(t[i + 1]) and t[i + 2][0] == "v" and t[i + 3][0] == "d" \
                and t[i + 4][0] == "r" and t[i + 5][0] == "c":
            v = int(t[i + 2][1:]); d = int(t[i + 3][1:]); r = int(t[i + 4][1:])
            cs = t[i + 5][1:].split("-")
            if v == d == r and all(int(c) == v for c in cs):
                j = i + 6
                if j + 2 * v < n and t[j + 2 * v] == "|" and j + 2 * v + 1 + v * v <= n:
                    pairs = [(t[j + 2 * k], t[j + 1 + 2 * k]) for k in range(v)]
                    h = t[j + 2 * v + 1: j + 2 * v + 1 + v * v]
                    if all(is_float_tok(p[1]) for p in pairs) and all(is_float_tok(x) for x in h):
                        return ("D2", t[i + 1], [p[0] for p in pairs], [p[1] for p in pairs],
                                [[h[a * v + b] for b in range(v)] for a in range(v)], j + 2 * v + 1 + v * v)
    except (ValueError, IndexError):
        pass
    return None


_ZERO_TOK = "h0000000000000000"


def align_numbers(a_line, b_line):
    """For the tolerance comparison of numbers BY VARIABLE NAME: rewrite every dual number printed at the same
    place of the two lines over the union of the two variable lists (sorted by name), a variable one side
    does not carry counting as a zero derivative - so that a rounding-level derivative on one side and an
    absent variable on the other are compared as numbers instead of as different shapes."""
    ta, tb = a_line.split(), b_line.split()
    oa, ob = [], []
    i = j = 0
    while i < len(ta) and j < len(tb):
        pa = _parse_num(ta, i) if ta[i] in ("D", "D2") else None
        pb = _parse_num(tb, j) if tb[j] in ("D", "D2") else None
        if pa and pb and pa[0] == pb[0]:
            names = sorted(set(pa[2]) | set(pb[2]))
            for (p, out) in ((pa, oa), (pb, ob)):
                idx = {nm: k for k, nm in enumerate(p[2])}
                out += [p[0], p[1]]
                for nm in names:
                    out += [nm, p[3][idx[nm]] if nm in idx else _ZERO_TOK]
                if p[0] == "D2":
                    out.append("|")
                    for x in names:
                        for y in names:
                            out.append(p[4][idx[x]][idx[y]] if (x in idx and y in idx) else _ZERO_TOK)
            i, j = pa[5], pb[5]
        else:
            oa.append(ta[i]); ob.append(tb[j])
            i += 1; j += 1
    oa += ta[i:]; ob += tb[j:]
    return " ".join(oa), " ".join(ob)


def sort_numbers(line):
    """every dual number printed on the line with its variables in NAME order (Hessian permuted accordingly): no
    property determines the internal order of a result's variable list - only the derivative per name"""
    t = line.split()
    out = []
    i = 0
    while i < len(t):
        p = _parse_num(t, i) if t[i] in ("D", "D2") else None
        if p:
            names = p[2]
            order = sorted(range(len(names)), key=lambda k: names[k])
            v = len(names)
            if p[0] == "D":
                out += ["D", p[1], "v%d" % v, "d%d" % v]
                for k in order:
                    out += [names[k], p[3][k]]
            else:
                out += ["D2", p[1], "v%d" % v, "d%d" % v, "r%d" % v, "c" + "-".join([str(v)] * v)]
                for k in order:
                    out += [names[k], p[3][k]]
                out.append("|")
                for a in order:
                    for b in order:
                        out.append(p[4][a][b])
            i = p[5]
        else:
            out.append(t[i])
            i += 1
    return " ".join(out)


def canon_pair(cfg, toks, a, b):
    """the by-name view of two answer lines: exact rule - drop zero-derivative variables on each side;
    tolerance rule - align both sides over the union of their variables"""
    if not cfg.semantic_names:
        if getattr(cfg, "sort_names", False):
            return sort_numbers(a), sort_numbers(b)
        return a, b
    if cfg.mode_for(toks) == "close":
        return align_numbers(a, b)
    return canon_numbers(a), canon_numbers(b)


_HANY = re.compile(r"h[0-9a-f]{16}")


def max_abs_floats(text):
    """largest finite magnitude among the float literals occurring anywhere in `text`"""
    m = 0.0
    for h in _HANY.findall(text):
        v = f_of_hex(h)
        if not (math.isnan(v) or math.isinf(v)):
            m = max(m, abs(v))
    return m


def compare_lines(impl, model, mode, rtol=1e-9, atol_rel=1e-12, scale0=0.0):
    """True iff the two answer lines agree under the comparison rule `mode`
    ('exact' | 'close' | 'vexact' = values bit for bit, derivative entries with the tolerance of 'close')."""
    if impl == model:
        return True
    if mode == "exact":
        # bit-exact, except that two NaNs are the same answer whatever their sign/payload
        ti, tm = impl.split(), model.split()
        if len(ti) != len(tm):
            return False
        for a, b in zip(ti, tm):
            if a != b:
                if not (is_float_tok(a) and is_float_tok(b)):
                    return False
                fa, fb = f_of_hex(a), f_of_hex(b)
                # two NaNs are one answer; so are +0.0 and -0.0 (no property speaks about the sign of zero)
                if not ((math.isnan(fa) and math.isnan(fb)) or (fa == 0.0 and fb == 0.0)):
                    return False
        return True
    ti, tm = impl.split(), model.split()
    if len(ti) != len(tm):
        return False
    fl = []
    prev = ""
    overflowed = False
    for a, b in zip(ti, tm):
        fa, fb = is_float_tok(a), is_float_tok(b)
        if fa != fb:
            return False
        if not fa:
            if a != b:
                return False
            if a in ("F", "D", "D2", ";"):
                overflowed = False
        elif overflowed:
            # derivative entries of a number whose VALUE is the same infinity or NaN on both sides: the value has
            # left the reals, no property speaks about its derivatives (inf vs NaN there is an artefact of the
            # operation order)
            pass
        elif prev in ("D", "D2") and not math.isfinite(f_of_hex(a)) and not math.isfinite(f_of_hex(b)):
            va, vb = f_of_hex(a), f_of_hex(b)
            if not ((math.isnan(va) and math.isnan(vb)) or va == vb):
                return False
            overflowed = True
        elif mode == "vexact" and prev in ("F", "D", "D2", "B", "X", ""):
            # a VALUE (the float right after a number marker, or a bare float): bit for bit (NaN = NaN, +0 = -0)
            va, vb = f_of_hex(a), f_of_hex(b)
            if a != b and not ((math.isnan(va) and math.isnan(vb)) or (va == 0.0 and vb == 0.0)):
                return False
            fl.append((va, va))   # contributes to the scale only
        else:
            fl.append((f_of_hex(a), f_of_hex(b)))
        prev = a
    scale = scale0
    for a, b in fl:
        for v in (a, b):
            if not (math.isnan(v) or math.isinf(v)):
                scale = max(scale, abs(v))
    return all(floats_close(a, b, scale, rtol, atol_rel) for a, b in fl)


# --------------------------------------------------------------------------------------------
# building

class BuildFailure(Exception):
    def __init__(self, what, log):
        self.what, self.log = what, log


def build_harness():
    lock_src = os.path.join(REPO, "Cargo.lock")
    lock_dst = os.path.join(HARNESS_DIR, "Cargo.lock")
    if not os.path.exists(lock_dst) and os.path.exists(lock_src):
        shutil.copy(lock_src, lock_dst)
    r = sh(["cargo", "build", "--release", "--offline"], cwd=HARNESS_DIR, timeout=1800)
    if r.returncode != 0:
        raise BuildFailure("cargo build of harness against /repo failed", r.stdout)


def lake_build(targets):
    r = sh(["lake", "build"] + targets, cwd=LEAN_DIR, timeout=3600)
    return r.returncode == 0, r.stdout


def theorem_names(prop):
    """Names of the property theorems = every `theorem` declared in Props/<prop>.lean."""
    path = os.path.join(LEAN_DIR, "RateslibModel", "Props", prop + ".lean")
    names, ns = [], []
    in_comment = 0
    for line in open(path):
        s = line.strip()
        # crude block-comment tracking
        in_comment += line.count("/-") - line.count("-/")
        if in_comment > 0 and not s.startswith("theorem"):
            continue
        m = re.match(r"^namespace\s+(\S+)", line)
        if m:
            ns.append(m.group(1))
        m = re.match(r"^end\s+(\S+)", line)
        if m and ns and ns[-1].split(".")[-1] == m.group(1).split(".")[-1]:
            ns.pop()
        m = re.match(r"^(?:@\[[^\]]*\]\s*)?theorem\s+([^\s:({\[]+)", line)
        if m:
            names.append(".".join(ns + [m.group(1)]))
    return names


FORBIDDEN = re.compile(r"sorry|admit|^\s*axiom\s|native_decide|bv_decide|implemented_by|unsafe\s|maxHeartbeats\s+0")


def strip_comments(text):
    text = re.sub(r"/-.*?-/", "", text, flags=re.S)
    return "\n".join(l.split("--")[0] for l in text.splitlines())


def grep_forbidden():
    hits = []
    for root, _, files in os.walk(os.path.join(LEAN_DIR, "RateslibModel")):
        for fn in files:
            if fn.endswith(".lean"):
                p = os.path.join(root, fn)
                for i, l in enumerate(strip_comments(open(p).read()).splitlines()):
                    if FORBIDDEN.search(l):
                        hits.append("%s:%d: %s" % (p, i + 1, l.strip()))
    return hits


def audit(prop, scratch):
    """Build Props/<prop> and print the axioms of every theorem in it.
    Returns (theorems:[{name, axioms, ok}], log)."""
    mod = "RateslibModel.Props." + prop
    ok, log = lake_build([mod, "driver"])
    names = theorem_names(prop)
    if not ok:
        return [{"name": n, "axioms": None, "ok": False} for n in names], log
    src = "import %s\n" % mod + "".join("#print axioms %s\n" % n for n in names)
    path = os.path.join(scratch, "audit_%s.lean" % prop)
    open(path, "w").write(src)
    r = sh(["lake", "env", "lean", path], cwd=LEAN_DIR, timeout=1800)
    out = r.stdout
    res = []
    flat = re.sub(r"\s+", " ", out)
    for n in names:
        m = re.search(r"'%s' depends on axioms: \[([^\]]*)\]" % re.escape(n), flat)
        if m:
            ax = [a.strip() for a in m.group(1).split(",") if a.strip()]
            res.append({"name": n, "axioms": ax, "ok": set(ax) <= ALLOWED_AXIOMS})
        elif re.search(r"'%s' does not depend on any axioms" % re.escape(n), flat):
            res.append({"name": n, "axioms": [], "ok": True})
        else:
            res.append({"name": n, "axioms": None, "ok": False})
    return res, log + out


# --------------------------------------------------------------------------------------------
# correspondence

def run_both(ops_path, scratch, tag=""):
    impl_path = os.path.join(scratch, "impl%s.txt" % tag)
    model_path = os.path.join(scratch, "model%s.txt" % tag)
    with open(ops_path, "rb") as fin, open(impl_path, "wb") as fo:
        pi = subprocess.Popen([HARNESS_BIN, "run"], stdin=fin, stdout=fo, env=ENV)
    with open(ops_path, "rb") as fin, open(model_path, "wb") as fo:
        pm = subprocess.Popen([DRIVER], stdin=fin, stdout=fo, env=ENV)
    ri, rm = pi.wait(), pm.wait()
    return impl_path, model_path, ri, rm


def run_lines(lines, scratch, tag="_r"):
    ops = os.path.join(scratch, "ops%s.txt" % tag)
    with open(ops, "w") as f:
        for l in lines:
            f.write(l + "\n")
    ip, mp, ri, rm = run_both(ops, scratch, tag)
    il = [" ".join(l.split()) for l in open(ip).read().splitlines()]
    ml = [" ".join(l.split()) for l in open(mp).read().splitlines()]
    return il, ml, ri, rm


def last_differs(lines, cfg, scratch):
    """Does the LAST line of `lines` still disagree between implementation and model?"""
    il, ml, ri, rm = run_lines(lines, scratch, "_s")
    n = len(lines)
    if len(il) < n or len(ml) < n:
        # one side died (abort): a difference unless both died at the same line
        return len(il) != len(ml)
    op = lines[-1].split()
    if il[n - 1] == "bad-op" or ml[n - 1] == "bad-op":
        return False  # a definition the failing line needs was removed: not a reproduction
    a, b = il[n - 1], ml[n - 1]
    sc = 0.0
    if cfg.segment_scale:
        sc = max([max_abs_floats(x) for x in lines] + [max_abs_floats(x) for x in il[:n]] +
                 [max_abs_floats(x) for x in ml[:n]] + [0.0])
    if cfg.line_scale:
        ls = type(cfg.line_scale)()
        last = 0.0
        for l in lines:
            if l.split():
                last = ls.feed(l.split())
        sc = max(sc, last)
    a, b = canon_pair(cfg, op, a, b)
    if cfg.compare_op:
        r = cfg.compare_op(op, a, b)
        if r is not None:
            return not r
    return not compare_lines(a, b, cfg.mode_for(op), cfg.rtol, cfg.atol_rel, sc)


_HTOK = re.compile(r"^h[0-9a-f]{16}$")
_PERT = 2.0 ** -40


def perturb_line(line, k):
    """every float operand of a definition line moved by a relative 2^-40 (sign pattern k)"""
    out = []
    idx = 0
    for tok in line.split():
        if _HTOK.match(tok):
            v = f_of_hex(tok)
            if not (math.isnan(v) or math.isinf(v)):
                sgn = (1.0, -1.0)[(idx + k) % 2] if k < 2 else (1.0, 1.0, -1.0)[idx % 3]
                v = v * (1.0 + sgn * _PERT)
                tok = "h" + struct.pack(">d", v).hex()
            idx += 1
        out.append(tok)
    return " ".join(out)


def cond_rescued(cfg, prefix, op, scratch):
    """Is the tolerance mismatch on `op` a rounding-level difference amplified by ill-conditioning?  The MODEL is
    re-run on the same op with every float operand of its definitions moved by a relative 2^-40 (three sign
    patterns); the spread of each output entry measures how far a last-bit change upstream can move it.  The
    mismatch is rounding-level iff every entry differs by no more than the tolerance scaled by that spread."""
    toks = op.split()
    base = prefix + [op]
    il, ml, _, _ = run_lines(base, scratch, "_c")
    if len(il) < len(base) or len(ml) < len(base):
        return False
    a, b = canon_pair(cfg, toks, il[-1], ml[-1])
    ta, tb = a.split(), b.split()
    if len(ta) != len(tb):
        return False
    spread = [0.0] * len(tb)
    for k in range(3):
        pert = [perturb_line(l, k) if cfg.is_def(l.split()) else l for l in prefix] + [op]
        _, mlp, _, _ = run_lines(pert, scratch, "_c%d" % k)
        if len(mlp) < len(base):
            return False
        _, bp = canon_pair(cfg, toks, il[-1], mlp[-1])
        tp = bp.split()
        if len(tp) != len(tb):
            return False
        for i, (x, y) in enumerate(zip(tb, tp)):
            if is_float_tok(x) and is_float_tok(y):
                fx, fy = f_of_hex(x), f_of_hex(y)
                d = abs(fx - fy)
                spread[i] = max(spread[i], d if not math.isnan(d) else float("inf"))
            elif x != y:
                return False
    factor = 4.0 * cfg.rtol / _PERT
    scale = max([abs(f_of_hex(x)) for x in ta + tb if is_float_tok(x) and not math.isnan(f_of_hex(x))
                 and not math.isinf(f_of_hex(x))] or [0.0])
    for i, (x, y) in enumerate(zip(ta, tb)):
        if is_float_tok(x) and is_float_tok(y):
            fx, fy = f_of_hex(x), f_of_hex(y)
            if floats_close(fx, fy, scale, cfg.rtol, cfg.atol_rel):
                continue
            if math.isnan(fx) or math.isnan(fy) or math.isinf(fx) or math.isinf(fy):
                return False
            if abs(fx - fy) > factor * spread[i]:
                return False
        elif x != y:
            return False
    return True


def shrink(prefix, failing, cfg, scratch, budget_s=60):
    """ddmin over the lines that precede the failing line."""
    t0 = time.time()
    keep = list(prefix)
    if not last_differs(keep + [failing], cfg, scratch):
        return keep, False  # not reproducible in isolation (should not happen)
    chunk = max(1, len(keep) // 2)
    while chunk >= 1 and time.time() - t0 < budget_s:
        i, changed = 0, False
        while i < len(keep) and time.time() - t0 < budget_s:
            cand = keep[:i] + keep[i + chunk:]
            if last_differs(cand + [failing], cfg, scratch):
                keep, changed = cand, True
            else:
                i += chunk
        if chunk == 1 and not changed:
            break
        chunk = max(1, chunk // 2) if chunk > 1 else (1 if changed else 0)
    return keep, True


def write_replay(prop, seed, lines, il, ml, notes, name=None):
    d = os.path.join(VERIF, "replays", prop)
    os.makedirs(d, exist_ok=True)
    h = hashlib.sha256(("\n".join(lines) + "|".join(notes)).encode()).hexdigest()[:12]
    path = os.path.join(d, (name or h) + ".txt")
    with open(path, "w") as f:
        f.write("# property=%s seed=%s\n" % (prop, seed))
        for n in notes:
            for l in n.splitlines():
                f.write("# %s\n" % l)
        if il is not None:
            f.write("# implementation answers: %s\n" % (il[-1] if il else "<none>"))
            f.write("# model answers:          %s\n" % (ml[-1] if ml else "<none>"))
        f.write("# replay with: bin/check --replay %s\n" % path)
        for l in lines:
            f.write(l + "\n")
    return path


def load_known():
    p = os.path.join(VERIF, "known_findings.json")
    try:
        return json.load(open(p))
    except OSError:
        return {"findings": [], "fixed": []}


# --------------------------------------------------------------------------------------------
# one check

def fingerprint(prop):
    out = {}
    for l in open(os.path.join(VERIF, "properties.jsonl")):
        p = json.loads(l)
        if p["id"] == prop:
            for f in p["anchors"].get("files", []):
                out[f] = sha256_file(os.path.join(REPO, f))
    return out


def check(prop, tier, seed):
    t0 = time.time()
    cfg = P.PROPS[prop]
    scratch = os.path.join(BUILD, "run", "%s_%d" % (prop, os.getpid()))
    os.makedirs(scratch, exist_ok=True)
    violations = []   # (replay_path, suffix)
    known_lines = []
    ev = {"property_id": prop, "tier": tier, "seed": seed, "level": "proof"}
    cov = {}
    notes_build = []
    known = load_known()
    try:
        # 1. rebuild from /repo's working tree; 2. regenerate; 3. proof obligations
        with Lock("lock"):
            try:
                build_harness()
            except BuildFailure as e:
                notes = [e.what, "nothing can be shown to hold for a tree that does not build"]
                if "verif_hooks.rs" in e.log and "rust/verif_hooks.rs" in e.log:
                    notes.append("NOTE: the first errors are in rust/verif_hooks.rs, the feature-gated hook file that "
                                 "re-exports crate-private items for this harness (MANIFEST.hooks): an item it names was "
                                 "renamed, moved or changed signature in the tree under test; carry that change into the "
                                 "hook file (it contains no logic of its own) and re-run")
                path = write_replay(prop, seed, [], None, None, notes + [e.log[-6000:]], name="build_failure")
                violations.append((path, "no-failing-input-found"))
                raise
            gen_notes = cfg.regenerate(HARNESS_BIN, LEAN_DIR, REPO) if cfg.regenerate else []
            ths, log = audit(prop, scratch)
            forb = grep_forbidden()
        failed_ths = [t for t in ths if not t["ok"]]
        cov["obligations"] = len(ths)
        cov["discharged"] = len(ths) - len(failed_ths)
        cov["theorems"] = ths
        cov["checker_cmd"] = ("cd /verif/lean && lake build RateslibModel.Props.%s && "
                              "lake env lean <file with `#print axioms` for each theorem>" % prop)
        if forb:
            path = write_replay(prop, seed, [], None, None,
                                ["forbidden construct in the Lean sources:"] + forb, name="forbidden")
            violations.append((path, "no-failing-input-found"))
        if tier == "thorough" and not failed_ths:
            r = sh(["lake", "env", "leanchecker", "RateslibModel.Props." + prop], cwd=LEAN_DIR, timeout=3600)
            cov["leanchecker_rc"] = r.returncode
            if r.returncode != 0:
                failed_ths = [{"name": "leanchecker", "axioms": None, "ok": False}]
                log += r.stdout

        # 4. correspondence
        stats = {"evaluations": 0, "nontrivial": set(), "dist": {}, "samples": []}
        mismatches = []
        oracle_fail = []
        if cfg.gen:
            ops_path = os.path.join(scratch, "ops.txt")
            corpus_dir = os.path.join(VERIF, "corpus", prop)
            with open(ops_path, "wb") as f:
                # corpus of minimised past failures first
                if os.path.isdir(corpus_dir):
                    for fn in sorted(os.listdir(corpus_dir)):
                        for l in open(os.path.join(corpus_dir, fn), "rb"):
                            if not l.startswith(b"#") and l.strip():
                                f.write(l)
                        f.write(b"reset\n")
                r = subprocess.run([HARNESS_BIN, "gen", prop, tier, str(seed)], stdout=f, env=ENV)
                if r.returncode != 0:
                    raise BuildFailure("generator failed", "rc=%d" % r.returncode)
            ip, mp, ri, rm = run_both(ops_path, scratch)
            cov["impl_exit"] = ri
            cov["model_exit"] = rm
            n = 0
            seg_scale = 0.0
            with open(ops_path) as fo, open(ip) as fi, open(mp) as fm:
                for n, op in enumerate(fo):
                    il = fi.readline()
                    ml = fm.readline()
                    if not il or not ml:
                        mismatches.append((n, op.rstrip("\n"), il.rstrip("\n") or "<no answer: process ended>",
                                           ml.rstrip("\n") or "<no answer: process ended>"))
                        break
                    il = " ".join(il.split()); ml = " ".join(ml.split())
                    toks = op.split()
                    if not toks:
                        continue
                    if cfg.segment_scale:
                        if toks[0] == "reset":
                            seg_scale = 0.0
                        seg_scale = max(seg_scale, max_abs_floats(op), max_abs_floats(il), max_abs_floats(ml))
                    op_scale = cfg.line_scale.feed(toks) if cfg.line_scale else 0.0
                    il_raw = il
                    il, ml = canon_pair(cfg, toks, il, ml)
                    stats["evaluations"] += 1
                    same = None
                    if cfg.compare_op:
                        same = cfg.compare_op(toks, il, ml)
                    if same is None:
                        same = (il == ml) or compare_lines(il, ml, cfg.mode_for(toks), cfg.rtol, cfg.atol_rel,
                                                           max(seg_scale if cfg.segment_scale else 0.0, op_scale))
                    if not same or ((il == "bad-op" or ml == "bad-op") and not cfg.allow_badop):
                        if len(mismatches) < 200:
                            mismatches.append((n, op.rstrip("\n"), il, ml))
                    bucket, nontriv = cfg.classify(toks, il)
                    if bucket is not None:
                        stats["dist"][bucket] = stats["dist"].get(bucket, 0) + 1
                        if nontriv:
                            stats["nontrivial"].add(hash((op, il)))
                            if len(stats["samples"]) < 6 and (len(stats["samples"]) == 0 or n % 977 == 0):
                                stats["samples"].append({"op": op.strip()[:400], "impl": il[:400], "model": ml[:400]})
                    if cfg.oracle:
                        # the model-free oracle judges the implementation's answer AS PRINTED (not the by-name view)
                        o = cfg.oracle(toks, il_raw)
                        if o:
                            oracle_fail.append((n, op.rstrip("\n"), il_raw, o))
            if cfg.oracle_finish:
                oracle_fail.extend(cfg.oracle_finish())
        cov["evaluations"] = stats["evaluations"]
        cov["distinct_nontrivial"] = len(stats["nontrivial"])
        cov["rule"] = cfg.rule
        cov["distribution"] = stats["dist"]
        cov["samples"] = stats["samples"] or [{"note": "proof obligations only"}]
        cov["exhaustive"] = bool(cfg.exhaustive and cfg.exhaustive(tier))
        cov["source_fingerprint"] = fingerprint(prop)
        cov["generated"] = gen_notes

        # 5. verdicts
        all_lines = None
        seen_keys = set()
        corr_only = []
        cond_ok = []
        for (n, op, il, ml) in mismatches:
            if cfg.correspondence_only and cfg.correspondence_only(op.split(), il, ml):
                # the model and the code disagree on an observable the property does not determine (wire
                # bytes, accept/reject of a malformed document): the correspondence is broken, which is not
                # by itself a violation - the oracles of this run are the search for a failing input
                corr_only.append((n, op, il, ml))
                continue
            key = cfg.finding_key(op.split(), il, ml)
            if key in seen_keys:
                continue
            seen_keys.add(key)
            kf = [k for k in known.get("findings", []) if k["property"] == prop and k["key"] == key]
            if kf:
                known_lines.append("KNOWN-FINDING: property=%s %s" % (prop, kf[0]["what"]))
                continue
            if len(violations) >= 5:
                continue
            if all_lines is None:
                all_lines = open(os.path.join(scratch, "ops.txt")).read().splitlines()
            prefix = [l for l in all_lines[:n] if cfg.is_def(l.split())]
            # restrict to the segment after the last reset
            for i in range(len(prefix) - 1, -1, -1):
                if prefix[i].strip() == "reset":
                    prefix = prefix[i + 1:]
                    break
            if cfg.cond_rescue and cfg.mode_for(op.split()) == "close" and cond_rescued(cfg, prefix, op, scratch):
                # a rounding-level difference amplified by cancellation: within the correspondence's tolerance
                # once the tolerance is scaled by the op's own conditioning (measured with the model)
                cond_ok.append(n)
                seen_keys.discard(key)
                continue
            keep, repro = shrink(prefix, op, cfg, scratch)
            lines = keep + [op]
            il2, ml2, _, _ = run_lines(lines, scratch)
            notes = ["correspondence mismatch on op line %d of the generated stream (key %s)" % (n, key),
                     "the model's answer satisfies the property by the theorems of Props/%s.lean; "
                     "the property determines this observable, so the implementation's answer violates it" % prop,
                     "comparison rule: %s" % cfg.mode_for(op.split())]
            if not repro:
                notes.append("NOTE: not reproducible in isolation; full prefix kept")
            path = write_replay(prop, seed, lines, il2, ml2, notes)
            violations.append((path, ""))
        for (n, op, il, why) in oracle_fail[:5]:
            key = "oracle:" + cfg.finding_key(op.split(), il, "")
            kf = [k for k in known.get("findings", []) if k["property"] == prop and k["key"] == key]
            if kf:
                known_lines.append("KNOWN-FINDING: property=%s %s" % (prop, kf[0]["what"]))
                continue
            # the definitions the op may refer to: the definition lines since the last reset (not shrunk)
            if all_lines is None:
                all_lines = open(os.path.join(scratch, "ops.txt")).read().splitlines()
            prefix = [l for l in all_lines[:n] if cfg.is_def(l.split())]
            for i in range(len(prefix) - 1, -1, -1):
                if prefix[i].strip() == "reset":
                    prefix = prefix[i + 1:]
                    break
            if getattr(cfg.oracle, "stateful", False):
                # the oracle judges the op against earlier answers of the same case: keep the whole case
                seg = all_lines[:n]
                for i in range(len(seg) - 1, -1, -1):
                    if seg[i].strip() == "reset":
                        seg = seg[i + 1:]
                        break
                prefix = [l for l in seg if l.strip()]
            else:
                used = set(op.split())
                prefix = [l for l in prefix if l.split()[0] == "defname" or (len(l.split()) > 1 and (l.split()[1] in used or "H" + l.split()[1] in used))]
            path = write_replay(prop, seed, prefix + [op], [""] * len(prefix) + [il],
                                ["(definition)"] * len(prefix) + ["(model-free oracle)"],
                                ["implementation output rejected by the model-free oracle: %s" % why])
            violations.append((path, ""))
        if corr_only and not violations:
            n, op, il, ml = corr_only[0]
            if all_lines is None:
                all_lines = open(os.path.join(scratch, "ops.txt")).read().splitlines()
            prefix = [l for l in all_lines[:n] if cfg.is_def(l.split())]
            for i in range(len(prefix) - 1, -1, -1):
                if prefix[i].strip() == "reset":
                    prefix = prefix[i + 1:]
                    break
            keep, repro = shrink(prefix, op, cfg, scratch)
            lines = keep + [op]
            il2, ml2, _, _ = run_lines(lines, scratch)
            path = write_replay(prop, seed, lines, il2, ml2,
                                ["the correspondence between model and implementation no longer checks on %d line(s) "
                                 "(first: op line %d); the disagreeing observable is not determined by the property "
                                 "(it belongs to the model: wire bytes / the form of a written document / acceptance of a malformed document)" % (len(corr_only), n),
                                 "search for a failing input: the model-free oracles of this run judged %d evaluations "
                                 "of the implementation and rejected none" % stats["evaluations"],
                                 "so no input is known on which the property fails; it is no longer SHOWN to hold"],
                                name="correspondence_broken")
            violations.append((path, "no-failing-input-found"))
        cov["correspondence_only_mismatches"] = len(corr_only)
        cov["conditioning_scaled_agreements"] = len(cond_ok)
        if failed_ths:
            # a proof obligation no longer checks; was a failing input found?
            names = ", ".join(t["name"] for t in failed_ths)
            if not violations:
                path = write_replay(prop, seed, [], None, None,
                                    ["proof obligations that no longer check: " + names,
                                     "the executable search over model and implementation found no differing input",
                                     log[-8000:]], name="obligation_failure")
                violations.append((path, "no-failing-input-found"))
            else:
                notes_build.append("also failing obligations: " + names)
        cov["mismatches"] = len(mismatches)
        cov["oracle_failures"] = len(oracle_fail)
    except BuildFailure as e:
        cov.setdefault("obligations", 0)
        cov.setdefault("discharged", 0)
        cov.setdefault("checker_cmd", "n/a (build failed)")
        cov["explanation"] = e.what
        if not violations:
            path = write_replay(prop, seed, [], None, None, [e.what, e.log[-6000:]], name="build_failure")
            violations.append((path, "no-failing-input-found"))
    finally:
        shutil.rmtree(scratch, ignore_errors=True)

    cov["trusted_base"] = P.TRUSTED_BASE + cfg.trusted
    if cov.get("discharged", 0) < cov.get("obligations", 0) or cov.get("obligations", 0) == 0:
        ev["level"] = "other"
        cov.setdefault("explanation", "not every proof obligation is discharged on this run; "
                       "the result rests on the correspondence run only")
    ev["coverage"] = cov
    ev["assumptions"] = cfg.assumptions
    ev["wall_s"] = round(time.time() - t0, 2)
    ev["violations"] = len(violations)
    ev["known_findings_observed"] = known_lines
    os.makedirs(os.path.join(VERIF, "evidence"), exist_ok=True)
    with open(os.path.join(VERIF, "evidence", prop + ".json"), "w") as f:
        json.dump(ev, f, indent=1, default=str)
        f.write("\n")
    for l in sorted(set(known_lines)):
        print(l)
    for path, suffix in violations:
        print(("VIOLATION property=%s replay=%s %s" % (prop, path, suffix)).rstrip())
    print("%s %s: obligations %s/%s, evaluations %s, non-trivial %s, violations %d, %.1fs" % (
        prop, tier, cov.get("discharged"), cov.get("obligations"), cov.get("evaluations"),
        cov.get("distinct_nontrivial"), len(violations), time.time() - t0))
    return 1 if violations else 0


def replay(path):
    lines = [l.rstrip("\n") for l in open(path) if not l.startswith("#") and l.strip()]
    head = open(path).readline()
    m = re.search(r"property=(C\d+)", head)
    prop = m.group(1) if m else None
    scratch = os.path.join(BUILD, "run", "replay_%d" % os.getpid())
    os.makedirs(scratch, exist_ok=True)
    try:
        with Lock("lock"):
            build_harness()
            ok, log = lake_build(["driver"])
            if not ok:
                print(log)
                return 2
        il, ml, ri, rm = run_lines(lines, scratch)
        cfg = P.PROPS.get(prop) if prop else None
        bad = 0
        for i, op in enumerate(lines):
            a = il[i] if i < len(il) else "<no answer>"
            b = ml[i] if i < len(ml) else "<no answer>"
            same = None
            a_raw = a
            if cfg and op.split():
                a, b = canon_pair(cfg, op.split(), a, b)
            if cfg and cfg.compare_op:
                same = cfg.compare_op(op.split(), a, b)
            if same is None:
                sc = 0.0
                if cfg and cfg.segment_scale:
                    sc = max([max_abs_floats(x) for x in lines[:i + 1]] + [max_abs_floats(x) for x in il[:i + 1]] +
                             [max_abs_floats(x) for x in ml[:i + 1]] + [0.0])
                if cfg and cfg.line_scale:
                    ls = type(cfg.line_scale)()
                    last = 0.0
                    for l in lines[:i + 1]:
                        if l.split():
                            last = ls.feed(l.split())
                    sc = max(sc, last)
                same = compare_lines(a, b, cfg.mode_for(op.split()) if cfg else "exact",
                                     cfg.rtol if cfg else 1e-9, cfg.atol_rel if cfg else 1e-12, sc)
            why = cfg.oracle(op.split(), a_raw) if (cfg and cfg.oracle and op.split()) else None
            if not same or why or i == len(lines) - 1:
                print("op:    %s\nimpl:  %s\nmodel: %s\n%s" % (op[:300], a[:300], b[:300], "AGREE" if same else "DIFFER"))
                if why:
                    print("model-free oracle rejects the implementation's answer: %s" % why)
            if not same or why:
                bad += 1
        if bad:
            print("VIOLATION property=%s replay=%s" % (prop, path))
        return 1 if bad else 0
    finally:
        shutil.rmtree(scratch, ignore_errors=True)


def setup():
    with Lock("lock"):
        build_harness()
        mods = ["RateslibModel.Props." + p for p in sorted(P.PROPS)]
        ok, log = lake_build(["driver"] + mods)
        if not ok:
            # generated modules may be missing on a fresh restore: regenerate and retry
            for p, cfg in P.PROPS.items():
                if cfg.regenerate:
                    cfg.regenerate(HARNESS_BIN, LEAN_DIR, REPO)
            ok, log = lake_build(["driver"] + mods)
        print(log[-3000:])
        return 0 if ok else 1


def main(argv):
    if not argv:
        print(__doc__)
        return 2
    if argv[0] == "setup":
        return setup()
    if argv[0] == "--replay":
        return replay(argv[1])
    prop = argv[0]
    tier = argv[1] if len(argv) > 1 else os.environ.get("VERIF_TIER", "quick")
    seed = int(os.environ.get("VERIF_SEED", "1"))
    if prop not in P.PROPS:
        print("unknown property", prop)
        return 2
    return check(prop, tier, seed)
